(* Fp.v — IEEE-754 binary64 bit patterns over Z and the C casts libconfig applies to them.
   Definitions only.  A double is its 64-bit pattern as a Z in 0 .. 2^64-1. *)
From Coq Require Import List ZArith Bool.
Import ListNotations.
From LC Require Import Base.
Local Open Scope Z_scope.

Definition two52 : Z := 4503599627370496.
Definition two53 : Z := 9007199254740992.
Definition two63 : Z := 9223372036854775808.

Definition b64_sign (b : Z) : Z := b / two63.                (* 0 or 1 *)
Definition b64_exp (b : Z) : Z := (b / two52) mod 2048.
Definition b64_man (b : Z) : Z := b mod two52.

Definition b64_is_finite (b : Z) : bool := negb (b64_exp b =? 2047).
Definition b64_is_nan (b : Z) : bool := (b64_exp b =? 2047) && negb (b64_man b =? 0).
Definition b64_is_inf (b : Z) : bool := (b64_exp b =? 2047) && (b64_man b =? 0).
Definition b64_is_zero (b : Z) : bool := (b64_exp b =? 0) && (b64_man b =? 0).

(* A finite double is  (-1)^sign * m * 2^e  with: *)
Definition b64_m (b : Z) : Z := if b64_exp b =? 0 then b64_man b else b64_man b + two52.
Definition b64_e (b : Z) : Z := if b64_exp b =? 0 then -1074 else b64_exp b - 1075.

(* truncation toward zero of a finite double: the (int) / (long long) casts *)
Definition b64_trunc (b : Z) : Z :=
  let m := b64_m b in
  let e := b64_e b in
  let a := if 0 <=? e then m * 2 ^ e else m / 2 ^ (- e) in
  if b64_sign b =? 0 then a else - a.

(* C cast (int)double: defined only when the truncated value is representable *)
Definition cast_double_int (b : Z) : option Z :=
  if b64_is_finite b then
    let t := b64_trunc b in if in_int t then Some t else None
  else None.

Definition cast_double_int64 (b : Z) : option Z :=
  if b64_is_finite b then
    let t := b64_trunc b in if in_int64 t then Some t else None
  else None.

(* round a positive integer to [prec] significant bits, ties to even; result is the rounded
   integer *)
Definition round_pos_to_prec (prec : Z) (m : Z) : Z :=
  let e := Z.log2 m in
  if e <? prec then m
  else
    let sh := e - prec + 1 in
    let q := m / 2 ^ sh in
    let r := m mod 2 ^ sh in
    let half := 2 ^ (sh - 1) in
    let q' := if (half <? r) || ((r =? half) && Z.odd q) then q + 1 else q in
    q' * 2 ^ sh.

(* exact encoding of a positive integer that has at most 53 significant bits after removing
   trailing zeros (always the case after round_pos_to_prec 53) *)
Definition b64_of_pos_exact (m : Z) : Z :=
  let e := Z.log2 m in
  let man := if e <=? 52 then m * 2 ^ (52 - e) else m / 2 ^ (e - 52) in
  (e + 1023) * two52 + (man - two52).

(* (double)n for an integer n of magnitude below 2^1023 *)
Definition b64_of_Z (n : Z) : Z :=
  match n with
  | 0 => 0
  | Zpos _ => b64_of_pos_exact (round_pos_to_prec 53 n)
  | Zneg p => two63 + b64_of_pos_exact (round_pos_to_prec 53 (Zpos p))
  end.

(* (double)(float)n: what config_setting_set_int stores into a FLOAT setting *)
Definition b64_of_Z_via_float (n : Z) : Z :=
  match n with
  | 0 => 0
  | Zpos _ => b64_of_pos_exact (round_pos_to_prec 24 n)
  | Zneg p => two63 + b64_of_pos_exact (round_pos_to_prec 24 (Zpos p))
  end.
