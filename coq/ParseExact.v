(* ParseExact.v — acceptance is exactly "derivable and semantically valid", the accepted tree is the denoted one,
   and a semantic offence gives its own error at its own position (lemmas behind Properties_C02): soundness
   (GrammarFacts), completeness (ParseComplete) and the semantic errors (ParseFail) put together, for the parser
   and for config_read. *)
From Coq Require Import List ZArith NArith Bool Lia.
Import ListNotations.
From LC Require Import Base BaseFacts Tree Fp Lookup Api ApiStep ScanAction Tokens Lexer Parser Reader
  TreeFacts ApiFacts GrammarFacts ParseWrite ParseComplete ParseFail.
Local Open Scope Z_scope.

(* [ms] spells the located tokens up to an end-of-input token *)
Definition spells (ms : cmembers) (lts : list ltoken) : Prop :=
  exists pe junk, map ltp lts = toks_m ms ++ (TkEOF, pe) :: junk.

Section Exact.
  Variable ov : bool.
  Variable root0 : setting.
  Hypothesis Hp0 : s_pl root0 = PGroup.
  Hypothesis Hk0 : s_kids root0 = [].
  Notation run lts := (p_config ov (mkP root0 lts false O 0 None)).

  (* a tree that spells an accepted input meets the semantic conditions *)
  Lemma accepted_sem lts s' ms : run lts = POk s' -> wf_m ms = true -> spells ms lts -> sem_m ov ms [] = true.
  Proof.
    intros Hok Hwf (pe & junk & Hsp).
    destruct (err_m ov ms []) as [[e ep]|] eqn:Ee.
    - destruct (parse_fails ov ms pe junk root0 lts e ep Hwf Ee Hsp Hp0 Hk0) as (s1 & E1 & _). rewrite E1 in Hok. discriminate Hok.
    - destruct (err_none_sem ov) as (_ & _ & _ & HS). apply HS; assumption.
  Qed.

  (* exactly the derivable, semantically valid inputs are accepted *)
  Theorem accept_iff lts :
    (exists s', run lts = POk s') <-> (exists ms, wf_m ms = true /\ spells ms lts /\ sem_m ov ms [] = true).
  Proof.
    split.
    - intros (s' & Hok).
      destruct (p_config_sound ov _ _ Hok) as (ts & E & D & _).
      change (ptoks (mkP root0 lts false 0 0 None)) with (map lt_tok lts) in E.
      destruct (map_eq_app_inv _ _ _ _ E) as (la & lb & -> & Ea & Eb).
      destruct (map_eq_cons_inv _ _ _ _ Eb) as (le & lj & -> & Ee & _).
      destruct cst_of_derivation as (_ & _ & _ & Hd). destruct (Hd ts D la Ea) as (ms & Hwf & Hm).
      assert (Hsp : spells ms (la ++ le :: lj)).
      { exists (lpos le), (map ltp lj). rewrite map_app. cbn [map]. rewrite Hm, (ltp_is le _ Ee). reflexivity. }
      exists ms. split; [exact Hwf|]. split; [exact Hsp|]. exact (accepted_sem _ _ ms Hok Hwf Hsp).
    - intros (ms & Hwf & (pe & junk & Hsp) & Hsem).
      destruct (parse_complete ov ms pe junk root0 lts Hwf Hsem Hsp Hp0 Hk0) as (s' & E & _). exists s'. exact E.
  Qed.

  (* the accepted configuration is the one the text denotes: settings, order, types, values, formats, and the
     position of every named setting *)
  Theorem accept_denotes lts s' ms :
    run lts = POk s' -> wf_m ms = true -> spells ms lts ->
    pobs (p_root s') = PN (s_name root0) (spos_of root0) PGroup (s_fmt root0) (den_m ms []).
  Proof.
    intros Hok Hwf Hsp. pose proof (accepted_sem _ _ ms Hok Hwf Hsp) as Hsem. destruct Hsp as (pe & junk & Hsp).
    destruct (parse_complete ov ms pe junk root0 lts Hwf Hsem Hsp Hp0 Hk0) as (s2 & E & O).
    rewrite Hok in E. injection E as <-. exact O.
  Qed.

  (* a derivable input that breaks a semantic condition: the error of the first offence, at its position *)
  Theorem reject_semantic lts ms :
    wf_m ms = true -> spells ms lts -> sem_m ov ms [] = false ->
    exists e ep s', err_m ov ms [] = Some (e, ep) /\ run lts = PErr e s' /\ epos s' = ep /\ (e = PErrDup \/ e = PErrMismatch).
  Proof.
    intros Hwf (pe & junk & Hsp) Hsem.
    destruct (err_m ov ms []) as [[e ep]|] eqn:Ee.
    - destruct (parse_fails ov ms pe junk root0 lts e ep Hwf Ee Hsp Hp0 Hk0) as (s1 & E1 & P1).
      exists e, ep, s1. split; [reflexivity|]. split; [exact E1|]. split; [exact P1|].
      destruct (err_kind ov) as (_ & _ & _ & HK). exact (HK ms [] e ep Ee).
    - destruct (err_none_sem ov) as (_ & _ & _ & HS). rewrite (HS ms [] Hwf Ee) in Hsem. discriminate Hsem.
  Qed.

  (* an input that is not derivable is not accepted *)
  Theorem reject_underivable lts :
    (forall ts rest, map lt_tok lts = ts ++ TkEOF :: rest -> ~ Dsettings ts) -> forall s', run lts <> POk s'.
  Proof.
    intros Hnd s' Hok. destruct (p_config_sound ov _ _ Hok) as (ts & E & D & _).
    change (ptoks (mkP root0 lts false 0 0 None)) with (map lt_tok lts) in E. exact (Hnd ts _ E D).
  Qed.
End Exact.

(* ------------------------------------------------------------------------------------ *)
(* config_read: the tokens are those of the scanner (C18), includes expanded (C10) *)
Section Read.
  Variable atof : bytes -> Z.
  Variable FS : fs.
  Variable c : cfg.
  Variable top : option bytes.
  Variable text : bytes.

  Let c1 := set_files (set_root (set_err c err0) new_root) [].
  Let toks := fst (lex_top atof FS c1 top text).
  Let ov := get_option c OPT_OVERRIDES.
  Let r := config_read atof FS c top text.

  Lemma read_unfold :
    max_nest toks 0 0 <= NEST_LIMIT ->
    forall res, res = p_config ov (mkP (set_pos new_root 0 top) toks false O 0 None) ->
    (forall s, res = POk s -> rd_out_ r = RdOk /\ c_root (rd_cfg r) = p_root s) /\
    (forall e s, res = PErr e s -> rd_out_ r = RdFail /\
       c_err (rd_cfg r) = (let err2 := yyerror (apply_scan_errs err0 (read_tokens toks (p_read s))) (p_line s) (perr_text e) in
                           mkErr 2 (e_text err2) (p_file s) (e_line err2))) /\
    (rd_out_ r = RdOk -> exists s, res = POk s).
  Proof.
    intros Hn res Hres. unfold r, config_read, clear_cfg.
    assert (Etk : fst (lex_top atof FS c1 top text) = toks) by reflexivity.
    destruct (lex_top atof FS _ top text) as [tk stop] eqn:El. cbv zeta. cbn [fst] in Etk. rewrite Etk.
    replace (NEST_LIMIT <? max_nest toks 0 0) with false by (symmetry; apply Z.ltb_ge; exact Hn).
    change (p_config _ _) with (p_config ov (mkP (set_pos new_root 0 top) toks false O 0 None)). rewrite <- Hres.
    repeat split.
    - destruct res; try discriminate. reflexivity.
    - destruct res; try discriminate. injection H as <-. reflexivity.
    - destruct res; try discriminate. reflexivity.
    - destruct res; try discriminate. injection H as <- <-. reflexivity.
    - destruct res as [s|e s|s|s]; cbn [rd_out_]; intros H; try discriminate H; [eauto|]. destruct stop; discriminate H.
  Qed.

  Hypothesis Hnest : max_nest toks 0 0 <= NEST_LIMIT.
  Let root0 := set_pos new_root 0 top.
  Let res := p_config ov (mkP root0 toks false O 0 None).

  Lemma root0_pl : s_pl root0 = PGroup. Proof. reflexivity. Qed.
  Lemma root0_kids : s_kids root0 = []. Proof. reflexivity. Qed.

  (* a read succeeds exactly when the token stream is a derivation of the documented grammar that meets the
     semantic conditions *)
  Theorem read_accept_iff :
    rd_out_ r = RdOk <-> exists ms, wf_m ms = true /\ spells ms toks /\ sem_m ov ms [] = true.
  Proof.
    destruct (read_unfold Hnest res eq_refl) as (Hok & _ & Hback).
    rewrite <- (accept_iff ov root0 root0_pl root0_kids toks). split.
    - intros H. destruct (Hback H) as (s & Es). exists s. exact Es.
    - intros (s & Es). destruct (Hok s Es) as [H _]. exact H.
  Qed.

  (* ... and the configuration is then the denoted one *)
  Theorem read_denotes ms :
    rd_out_ r = RdOk -> wf_m ms = true -> spells ms toks ->
    pobs (c_root (rd_cfg r)) = PN None None PGroup 0 (den_m ms []).
  Proof.
    intros H Hwf Hsp. destruct (read_unfold Hnest res eq_refl) as (Hok & _ & Hback).
    destruct (Hback H) as (s & Es). destruct (Hok s Es) as [_ ->].
    exact (accept_denotes ov root0 root0_pl root0_kids toks s ms Es Hwf Hsp).
  Qed.

  Lemma no_scan_errs l : Forall (fun t => lt_err t = None) l -> apply_scan_errs err0 l = err0.
  Proof.
    unfold apply_scan_errs. generalize err0. induction l as [|t rr IH]; intros e0 H; [reflexivity|].
    inversion H as [|? ? Ht Hr]; subst. cbn [fold_left]. rewrite Ht. apply IH. exact Hr.
  Qed.

  Lemma Forall_firstn {A} (Q : A -> Prop) n l : Forall Q l -> Forall Q (firstn n l).
  Proof. revert n. induction l as [|x rr IH]; intros [|n] H; cbn; try constructor; inversion H; subst; auto. Qed.

  (* a derivable text that breaks a semantic condition: the read fails with the message of the first offence,
     at its line and in its file *)
  Theorem read_reject_semantic ms :
    wf_m ms = true -> spells ms toks -> sem_m ov ms [] = false -> Forall (fun t => lt_err t = None) toks ->
    exists e l fi, err_m ov ms [] = Some (e, (l, fi)) /\ rd_out_ r = RdFail /\
                   c_err (rd_cfg r) = mkErr 2 (Some (perr_text e)) fi l /\ (e = PErrDup \/ e = PErrMismatch).
  Proof.
    intros Hwf Hsp Hsem Hne. destruct (read_unfold Hnest res eq_refl) as (_ & Herr & _).
    destruct (reject_semantic ov root0 root0_pl root0_kids toks ms Hwf Hsp Hsem) as (e & [l fi] & s' & Ee & Er & Ep & Hk).
    destruct (Herr e s' Er) as [H1 H2]. exists e, l, fi. split; [exact Ee|]. split; [exact H1|]. split; [|exact Hk].
    rewrite H2. unfold read_tokens. rewrite (no_scan_errs _ (Forall_firstn _ _ _ Hne)).
    unfold epos in Ep. injection Ep as -> ->. reflexivity.
  Qed.
End Read.
