(* FlexBufFacts.v — C20: the buffer machinery of the flex skeleton (FlexBuf.v) computes, for every table set, every start
   condition, every input (NUL bytes and lexemes longer than the buffer included) and every way the stream delivers the
   input, exactly FlexEngine.flex_match on the input that remains; hence string input (yy_scan_bytes) and stream input
   give the same list of (rule, lexeme), however the stream is cut into reads. *)
From Coq Require Import List ZArith Bool Lia.
Import ListNotations.
From LC Require Import Base FlexEngine FlexBuf Chunked ScannerCert.
From LC.gen Require Import Consts.
Local Open Scope Z_scope.

(* ---- lists ---- *)
Lemma nth_error_skipn_cons {A} (l : list A) : forall i b, nth_error l i = Some b -> skipn i l = b :: skipn (S i) l.
Proof. induction l as [|x l IH]; intros [|i] b H; cbn in *; try discriminate H; [injection H as ->; reflexivity | apply IH; exact H]. Qed.
Lemma nth_error_skipn_add {A} (l : list A) : forall p i, nth_error (skipn p l) i = nth_error l (p + i).
Proof. induction l as [|x l IH]; intros [|p] i; cbn; try reflexivity; [destruct i; reflexivity | apply IH]. Qed.
Lemma firstn_S_snoc {A} (l : list A) : forall i b, nth_error l i = Some b -> firstn (S i) l = firstn i l ++ [b].
Proof. induction l as [|x l IH]; intros [|i] b H; cbn in *; try discriminate H; [injection H as ->; reflexivity | f_equal; apply IH; exact H]. Qed.
Lemma skipn_all_nil {A} (l : list A) n : (length l <= n)%nat -> skipn n l = [].
Proof. apply skipn_all2. Qed.
Lemma skipn_add {A} (l : list A) : forall a b, skipn a (skipn b l) = skipn (b + a) l.
Proof. induction l as [|x l IH]; intros a [|b]; cbn; try reflexivity; [destruct a; reflexivity | apply IH]. Qed.

Section Facts.
  Variable T : tables.
  Variable rbs : nat.
  Hypothesis Hrbs : (1 <= rbs)%nat.             (* YY_READ_BUF_SIZE >= 1: a read request of 0 bytes would be taken for end of file *)

  Notation get_next := (get_next rbs).
  Notation scan := (scan T rbs).
  Notation fb_match := (fb_match T rbs).
  Notation fb_lex := (fb_lex T rbs).
  Notation upd_last := (upd_last T).
  Notation prev_state := (prev_state T).

  (* ---- the engine ---- *)
  Definition last_ok (n : nat) (last : option (Z * nat)) : Prop := match last with Some (_, l) => (l <= n)%nat | None => True end.

  Lemma upd_last_ok s n last : last_ok n last -> last_ok n (upd_last s n last).
  Proof. unfold FlexBuf.upd_last. destruct (accept_of T s =? 0); [auto | intros _; cbn; lia]. Qed.
  Lemma last_ok_le n m last : (n <= m)%nat -> last_ok n last -> last_ok m last.
  Proof. unfold last_ok. destruct last as [[r l]|]; [lia | auto]. Qed.

  Fixpoint nojam (s : Z) (bs : bytes) : Prop :=
    match bs with [] => True | b :: r => step_byte T s b <> t_jam T /\ nojam (step_byte T s b) r end.

  Lemma run_prev bs : forall s n last rest, nojam s bs ->
    run T s n last (bs ++ rest) = (let '(s', n', last') := prev_state s n last bs in run T s' n' last' rest).
  Proof.
    induction bs as [|b r IH]; intros s n last rest H; [reflexivity|]. destruct H as [H1 H2].
    cbn [app run FlexBuf.prev_state]. apply Z.eqb_neq in H1. rewrite H1. apply IH. exact H2.
  Qed.

  Lemma prev_snoc bs : forall s n last b,
    prev_state s n last (bs ++ [b]) = (let '(s', n', last') := prev_state s n last bs in (step_byte T s' b, S n', upd_last s' n' last')).
  Proof. induction bs as [|x r IH]; intros s n last b; [reflexivity|]. cbn [app FlexBuf.prev_state]. apply IH. Qed.

  Lemma nojam_snoc bs : forall s b, nojam s bs -> (let '(s', _, _) := prev_state s O None bs in step_byte T s' b <> t_jam T) -> nojam s (bs ++ [b]).
  Proof.
    assert (G : forall bs s n last b, nojam s bs -> (let '(s', _, _) := prev_state s n last bs in step_byte T s' b <> t_jam T) -> nojam s (bs ++ [b])).
    { induction bs0 as [|x r IH]; intros s n last b H Hb; cbn [app nojam FlexBuf.prev_state] in *; [auto|].
      destruct H as [H1 H2]. split; [exact H1|]. exact (IH _ _ _ _ H2 Hb). }
    intros s b. apply G.
  Qed.

  Lemma prev_state_fst bs : forall s n last n2 last2, fst (fst (prev_state s n last bs)) = fst (fst (prev_state s n2 last2 bs)).
  Proof. induction bs as [|x r IH]; intros; cbn [FlexBuf.prev_state]; [reflexivity | apply IH]. Qed.

  Lemma prev_state_ok bs : forall s n last, last_ok n last ->
    let '(_, n', last') := prev_state s n last bs in n' = (n + length bs)%nat /\ last_ok n' last'.
  Proof.
    induction bs as [|x r IH]; intros s n last H; cbn [FlexBuf.prev_state length]; [split; [lia | exact H]|].
    specialize (IH (step_byte T s x) (S n) (upd_last s n last) (last_ok_le n (S n) _ ltac:(lia) (upd_last_ok s n last H))).
    destruct (prev_state (step_byte T s x) (S n) (upd_last s n last) r) as [[s' n'] last']. destruct IH as [E L]. split; [lia | exact L].
  Qed.

  Lemma run_upd_nil s n last : run T s n last [] = upd_last s n last.
  Proof. reflexivity. Qed.

  (* ---- (1) the invariant of the buffer ---- *)
  (* what the stream still holds for this buffer (a yy_scan_bytes buffer reads nothing) *)
  Definition inp_of (st : fbstate) (strm : stream) : bytes := if fb_fill st then fst strm else [].
  (* the input that remains: buffer content from yytext_ptr on, then what remains in the stream *)
  Definition rem (st : fbstate) (strm : stream) : bytes := skipn (fb_pos st) (fb_data st) ++ inp_of st strm.

  (* yy_c_buf_p is inside the data, yy_n_chars <= yy_buf_size (so both sentinels, at yy_n_chars and yy_n_chars + 1, are inside
     the allocation of yy_buf_size + 2 bytes), a buffer that is refilled has yy_buf_size >= 1 (the growth loop does not end
     on size 0), and EOF_PENDING is only set after a read of 0 bytes *)
  Definition Inv (st : fbstate) (strm : stream) : Prop :=
    (fb_pos st <= length (fb_data st))%nat /\ (length (fb_data st) <= fb_size st)%nat /\
    (fb_fill st = true -> (1 <= fb_size st)%nat) /\ (fb_status st = BufEofPending -> fb_fill st = true -> fst strm = []).

  Lemma grow_spec ntm : forall fuel size, (1 <= size)%nat -> (S (S ntm) - size < fuel)%nat ->
    exists size', grow fuel size ntm = Some size' /\ (size <= size')%nat /\ (S ntm < size')%nat.
  Proof.
    induction fuel as [|f IH]; intros size H1 H2; [lia|]. cbn [grow].
    destruct (size <=? S ntm)%nat eqn:E.
    - apply Nat.leb_le in E. destruct (IH (2 * size)%nat ltac:(lia) ltac:(lia)) as (size' & G & L1 & L2).
      exists size'. split; [exact G|]. split; lia.
    - apply Nat.leb_gt in E. exists size. split; [reflexivity|]. split; lia.
  Qed.

  Lemma sread_spec n inp chunks : (1 <= n)%nat ->
    exists k, sread n (inp, chunks) = (firstn k inp, (skipn k inp, tl chunks)) /\ (k <= n)%nat /\ (k <= length inp)%nat /\
              (inp <> [] -> (1 <= k)%nat).
  Proof.
    intros Hn. unfold sread.
    set (c := match chunks with [] => n | c :: _ => Nat.max 1 c end).
    exists (Nat.min (Nat.min n (length inp)) c). split; [reflexivity|]. split; [lia|]. split; [lia|].
    intros Hne. assert (1 <= length inp)%nat by (destruct inp; [contradiction | cbn; lia]).
    assert (1 <= c)%nat by (unfold c; destruct chunks; lia). lia.
  Qed.

  Definition mu (st : fbstate) (n : nat) (strm : stream) : nat :=
    (2 * length (fst strm) + (length (fb_data st) - fb_pos st - n))%nat.

  Lemma lexeme_all st n : (fb_pos st + n = length (fb_data st))%nat -> lexeme st n = skipn (fb_pos st) (fb_data st).
  Proof. intros H. unfold lexeme. apply firstn_all2. rewrite skipn_length. lia. Qed.

  Lemma Inv_normalise st strm : Inv st strm -> Inv (normalise st) strm.
  Proof.
    unfold Inv, normalise. intros (H1 & H2 & H3 & H4). destruct (fb_status st) eqn:E; cbn; try rewrite E; auto.
    repeat split; auto. discriminate.
  Qed.

  (* what yy_get_next_buffer does when the scan has reached the sentinel *)
  Lemma get_next_spec st n strm : Inv st strm -> (fb_pos st + n = length (fb_data st))%nat ->
    match get_next (normalise st) n strm with
    | EobFatal => False
    | EobEOF st' strm' => n = O /\ inp_of st strm = [] /\ Inv st' strm' /\ rem st' strm' = []
    | EobLast st' strm' =>
        n <> O /\ inp_of st strm = [] /\ Inv st' strm' /\ rem st' strm' = rem st strm /\ lexeme st' n = lexeme st n /\
        (fb_pos st' + n = length (fb_data st'))%nat /\ inp_of st' strm' = []
    | EobContinue st' strm' =>
        inp_of st strm <> [] /\ Inv st' strm' /\ rem st' strm' = rem st strm /\ lexeme st' n = lexeme st n /\
        (fb_pos st' + n <= length (fb_data st'))%nat /\
        skipn (fb_pos st' + n) (fb_data st') ++ inp_of st' strm' = inp_of st strm /\ (mu st' n strm' < mu st n strm)%nat
    end.
  Proof.
    intros HI Hn. pose proof (Inv_normalise st strm HI) as HN.
    assert (Ed : fb_data (normalise st) = fb_data st) by (unfold normalise; destruct (fb_status st); reflexivity).
    assert (Ep : fb_pos (normalise st) = fb_pos st) by (unfold normalise; destruct (fb_status st); reflexivity).
    assert (Ez : fb_size (normalise st) = fb_size st) by (unfold normalise; destruct (fb_status st); reflexivity).
    assert (Ef : fb_fill (normalise st) = fb_fill st) by (unfold normalise; destruct (fb_status st); reflexivity).
    assert (El : lexeme (normalise st) n = lexeme st n) by (unfold lexeme; rewrite Ed, Ep; reflexivity).
    assert (Er : rem (normalise st) strm = rem st strm) by (unfold rem, inp_of; rewrite Ed, Ep, Ef; reflexivity).
    assert (Es : fb_status (normalise st) <> BufNew) by (unfold normalise; destruct (fb_status st) eqn:E; cbn; try rewrite E; discriminate).
    assert (Ee : fb_status (normalise st) = BufEofPending -> fb_status st = BufEofPending).
    { unfold normalise. destruct (fb_status st) eqn:E; cbn; try rewrite E; auto. discriminate. }
    destruct HI as (I1 & I2 & I3 & I4).
    assert (Hsk : skipn (fb_pos st) (fb_data st) = lexeme st n) by (symmetry; apply lexeme_all; exact Hn).
    assert (Hll : length (lexeme st n) = n) by (rewrite <- Hsk, skipn_length; lia).
    unfold FlexBuf.get_next. rewrite Ed, Ep, Ef, Ez, El.
    replace (length (fb_data st) + 1 <? fb_pos st + n + 1)%nat with false by (symmetry; apply Nat.ltb_ge; lia).
    destruct (fb_fill st) eqn:Efill; cbn [negb].
    2:{ (* yy_scan_bytes buffer *)
      assert (Ei : inp_of st strm = []) by (unfold inp_of; rewrite Efill; reflexivity).
      assert (Ei' : inp_of (normalise st) strm = []) by (unfold inp_of; rewrite Ef; reflexivity).
      destruct (n =? 0)%nat eqn:En; [apply Nat.eqb_eq in En | apply Nat.eqb_neq in En].
      - split; [exact En|]. split; [exact Ei|]. split; [exact HN|]. rewrite Er. unfold rem. rewrite Ei, Hsk. subst n.
        destruct (lexeme st 0); [reflexivity | discriminate Hll].
      - split; [exact En|]. split; [exact Ei|]. split; [exact HN|]. split; [exact Er|]. split; [exact El|]. rewrite Ed, Ep. auto. }
    specialize (I3 eq_refl).
    assert (Ei : inp_of st strm = fst strm) by (unfold inp_of; rewrite Efill; reflexivity).
    (* the part after the read, for a read result [got] = firstn k inp *)
    assert (Hfin : forall k size chunks', (n + k < size)%nat \/ (k = O /\ (n <= size)%nat) -> (1 <= size)%nat -> (k <= length (fst strm))%nat ->
              (fst strm <> [] -> (1 <= k)%nat) ->
              let got := firstn k (fst strm) in let s' := (skipn k (fst strm), chunks') in
              let size' := if (size <? length got + n)%nat then (length got + n + length got / 2 - 2)%nat else size in
              match match got with
                    | [] => if (n =? 0)%nat then EobEOF (mkFB [] size' 0 BufNew true) s' else EobLast (mkFB (lexeme st n) size' 0 BufEofPending true) s'
                    | _ => EobContinue (mkFB (lexeme st n ++ got) size' 0 (fb_status (normalise st)) true) s'
                    end with
              | EobFatal => False
              | EobEOF st' strm' => n = O /\ fst strm = [] /\ Inv st' strm' /\ rem st' strm' = []
              | EobLast st' strm' =>
                  n <> O /\ fst strm = [] /\ Inv st' strm' /\ rem st' strm' = rem st strm /\ lexeme st' n = lexeme st n /\
                  (fb_pos st' + n = length (fb_data st'))%nat /\ inp_of st' strm' = []
              | EobContinue st' strm' =>
                  fst strm <> [] /\ Inv st' strm' /\ rem st' strm' = rem st strm /\ lexeme st' n = lexeme st n /\
                  (fb_pos st' + n <= length (fb_data st'))%nat /\
                  skipn (fb_pos st' + n) (fb_data st') ++ inp_of st' strm' = fst strm /\ (mu st' n strm' < mu st n strm)%nat
              end).
    { intros k size chunks' Hk Hsz Hkl Hk1. cbv zeta. remember (firstn k (fst strm)) as got eqn:Egot.
      set (s' := (skipn k (fst strm), chunks')).
      assert (Lg : length got = k) by (rewrite Egot; apply firstn_length_le; exact Hkl).
      assert (Esz : (size <? length got + n)%nat = false) by (rewrite Lg; apply Nat.ltb_ge; lia).
      rewrite Esz. clear Esz.
      destruct got as [|g0 gr].
      - assert (k = O) by (cbn in Lg; lia). subst k.
        assert (Einp : fst strm = []) by (destruct (fst strm) as [|x r] eqn:E; [reflexivity | exfalso; specialize (Hk1 ltac:(discriminate)); lia]).
        destruct (n =? 0)%nat eqn:En; [apply Nat.eqb_eq in En | apply Nat.eqb_neq in En].
        + split; [exact En|]. split; [exact Einp|]. split; [unfold Inv; cbn; repeat split; auto; lia|].
          unfold rem, inp_of, s'. cbn. rewrite Einp. reflexivity.
        + split; [exact En|]. split; [exact Einp|]. split.
          { unfold Inv, s'. cbn [fb_pos fb_data fb_size fb_fill fb_status fst]. rewrite Hll, Einp. repeat split; auto; lia. }
          split. { unfold rem, inp_of, s'. cbn [fb_pos fb_data fb_fill fst skipn]. rewrite Efill, Hsk, Einp. reflexivity. }
          split. { unfold lexeme at 1. cbn [fb_pos fb_data skipn]. apply firstn_all2. lia. }
          split. { cbn [fb_pos fb_data]. lia. }
          unfold inp_of, s'. cbn. rewrite Einp. reflexivity.
      - assert (Hk0 : (1 <= k)%nat) by (rewrite <- Lg; cbn; lia).
        assert (Hne : fst strm <> []) by (intros E; rewrite E in Hkl; cbn in Hkl; lia).
        split; [exact Hne|]. split.
        { unfold Inv, s'. cbn [fb_pos fb_data fb_size fb_fill fb_status fst]. rewrite app_length, Hll, Lg.
          split; [lia|]. split; [lia|]. split; [auto|]. intros E. apply Ee in E. intros _. rewrite (I4 E eq_refl) in Hne. contradiction. }
        split. { unfold rem, inp_of, s'. cbn [fb_pos fb_data fb_fill fst skipn]. rewrite Efill, Hsk, <- app_assoc. rewrite Egot, firstn_skipn. reflexivity. }
        split. { unfold lexeme at 1. cbn [fb_pos fb_data skipn]. rewrite firstn_app, Hll, Nat.sub_diag. cbn [firstn]. rewrite app_nil_r. apply firstn_all2. lia. }
        split. { cbn [fb_pos fb_data]. rewrite app_length, Hll. lia. }
        split. { unfold inp_of, s'. cbn [fb_pos fb_data fb_fill fst Nat.add]. rewrite skipn_app, Hll, Nat.sub_diag. cbn [skipn].
                 rewrite (skipn_all_nil (lexeme st n) n ltac:(lia)). change ((g0 :: gr) ++ skipn k (fst strm) = fst strm). rewrite Egot. apply firstn_skipn. }
        unfold mu, s'. cbn [fb_pos fb_data fst]. rewrite app_length, Hll, Lg, skipn_length. lia. }
    rewrite Ei.
    destruct (fb_status (normalise st)) eqn:Est; [contradiction (Es eq_refl)| |].
    - (* a read *)
      destruct (grow_spec n (S (S n)) (fb_size st) I3 ltac:(lia)) as (size & -> & L1 & L2).
      assert (Hntr : (1 <= Nat.min (size - n - 1) rbs)%nat) by lia.
      destruct strm as [inp chunks]. destruct (sread_spec (Nat.min (size - n - 1) rbs) inp chunks Hntr) as (k & -> & K1 & K2 & K3).
      cbn [fst] in *. exact (Hfin k size (tl chunks) ltac:(left; lia) ltac:(lia) K2 K3).
    - (* EOF pending: no read *)
      pose proof (I4 (Ee eq_refl) eq_refl) as Einp. destruct strm as [inp chunks]. cbn [fst] in *. subst inp.
      exact (Hfin O (fb_size st) chunks ltac:(right; split; [reflexivity | lia]) I3 ltac:(cbn; lia) ltac:(intros E; contradiction)).
  Qed.

  (* ---- the matching loop ---- *)
  (* the state carried by the loop is the one yy_get_previous_state recomputes from the lexeme so far *)
  Definition carried (sc : Z) (bol : bool) (st : fbstate) (s : Z) (n : nat) (last : option (Z * nat)) : Prop :=
    (fb_pos st + n <= length (fb_data st))%nat /\ nojam (start_state sc bol) (lexeme st n) /\
    prev_state (start_state sc bol) O None (lexeme st n) = (s, n, last).

  Definition is_nil (l : bytes) : bool := match l with [] => true | _ => false end.

  Lemma scan_correct : forall fuel sc bol s n last st strm,
    Inv st strm -> carried sc bol st s n last -> (mu st n strm < fuel)%nat ->
    let rest := skipn (fb_pos st + n) (fb_data st) ++ inp_of st strm in
    exists st' strm', Inv st' strm' /\
      if (n =? 0)%nat && is_nil rest
      then scan fuel sc bol s n last st strm = (FbEOF, st', strm') /\ rem st' strm' = []
      else scan fuel sc bol s n last st strm = (FbAct (run T s n last rest), st', strm') /\ rem st' strm' = rem st strm /\
           (forall r len, run T s n last rest = Some (r, len) -> (fb_pos st' + len <= length (fb_data st'))%nat).
  Proof.
    induction fuel as [|f IH]; intros sc bol s n last st strm HI (C1 & C2 & C3) Hmu; [lia|]. cbv zeta.
    assert (Hlo : last_ok n last).
    { pose proof (prev_state_ok (lexeme st n) (start_state sc bol) O None I) as H. rewrite C3 in H. apply H. }
    cbn [FlexBuf.scan]. destruct (nth_error (fb_data st) (fb_pos st + n)) as [b|] eqn:En.
    - (* a byte of the buffer *)
      assert (Hlt : (fb_pos st + n < length (fb_data st))%nat) by (apply nth_error_Some; rewrite En; discriminate).
      rewrite (nth_error_skipn_cons _ _ _ En). cbn [app is_nil]. rewrite andb_false_r.
      set (rest' := skipn (S (fb_pos st + n)) (fb_data st) ++ inp_of st strm).
      assert (Hstep : forall X,
                X = (if step_byte T s b =? t_jam T then (FbAct (upd_last s n last), st, strm)
                     else scan f sc bol (step_byte T s b) (S n) (upd_last s n last) st strm) ->
                exists st' strm', Inv st' strm' /\ X = (FbAct (run T s n last (b :: rest')), st', strm') /\ rem st' strm' = rem st strm /\
                  (forall r len, run T s n last (b :: rest') = Some (r, len) -> (fb_pos st' + len <= length (fb_data st'))%nat)).
      { intros X ->. cbn [run]. fold (upd_last s n last).
        destruct (step_byte T s b =? t_jam T) eqn:Ej.
        + exists st, strm. split; [exact HI|]. split; [reflexivity|]. split; [reflexivity|].
          intros r len E. pose proof (upd_last_ok s n last Hlo) as Hl. rewrite E in Hl. cbn in Hl. lia.
        + assert (El : lexeme st (S n) = lexeme st n ++ [b]).
          { unfold lexeme. apply firstn_S_snoc. rewrite nth_error_skipn_add. exact En. }
          assert (C' : carried sc bol st (step_byte T s b) (S n) (upd_last s n last)).
          { split; [lia|]. rewrite El. split.
            - apply nojam_snoc; [exact C2|]. rewrite C3. apply Z.eqb_neq. exact Ej.
            - rewrite prev_snoc, C3. reflexivity. }
          destruct (IH sc bol _ _ _ st strm HI C' ltac:(unfold mu in *; lia)) as (st' & strm' & HI' & Hres).
          cbn [Nat.eqb andb] in Hres. rewrite Nat.add_succ_r in Hres. exists st', strm'. split; [exact HI'|]. exact Hres. }
      apply Hstep. destruct (b =? 0) eqn:Eb; [|reflexivity]. apply Z.eqb_eq in Eb. subst b. rewrite C3. reflexivity.
    - (* the sentinel *)
      assert (Heq : (fb_pos st + n = length (fb_data st))%nat) by (apply nth_error_None in En; lia).
      rewrite (skipn_all_nil (fb_data st) (fb_pos st + n) ltac:(lia)). cbn [app].
      pose proof (get_next_spec st n strm HI Heq) as Hg.
      destruct (get_next (normalise st) n strm) as [st' strm'|st' strm'|st' strm'|]; [| | |contradiction].
      + destruct Hg as (-> & Ei & HI' & Hr). rewrite Ei. cbn [Nat.eqb is_nil andb]. exists st', strm'. auto.
      + destruct Hg as (Hne & HI' & Hr & Hl & Hp & Hrest & Hm). rewrite Hl, C3.
        assert (C' : carried sc bol st' s n last) by (split; [exact Hp|]; rewrite Hl; auto).
        destruct (IH sc bol s n last st' strm' HI' C' ltac:(lia)) as (st2 & strm2 & HI2 & Hres).
        rewrite Hrest in Hres.
        assert (Hnil : is_nil (inp_of st strm) = false) by (destruct (inp_of st strm); [contradiction | reflexivity]).
        rewrite Hnil, andb_false_r in *. exists st2, strm2. split; [exact HI2|].
        destruct Hres as (R1 & R2 & R3). split; [exact R1|]. split; [congruence | exact R3].
      + destruct Hg as (Hne & Ei & HI' & Hr & Hl & Hp & Ei'). rewrite Hl, C3, Ei.
        replace (n =? 0)%nat with false by (symmetry; apply Nat.eqb_neq; exact Hne). cbn [andb].
        exists st', strm'. split; [exact HI'|]. split; [reflexivity|]. split; [exact Hr|].
        intros r len E. rewrite run_upd_nil in E. pose proof (upd_last_ok s n last Hlo) as Hlk. rewrite E in Hlk. cbn in Hlk. lia.
  Qed.

  (* ---- (2) one call of the matcher ---- *)
  Theorem fb_match_correct : forall sc bol st strm, Inv st strm ->
    exists st' strm', Inv st' strm' /\
      match rem st strm with
      | [] => fb_match sc bol st strm = (FbEOF, st', strm') /\ rem st' strm' = []
      | _ =>
          match flex_match T sc bol (rem st strm) with
          | Some (r, len) =>
              fb_match sc bol st strm = (FbAct (Some (r, len)), st', strm') /\
              rem st' strm' = skipn len (rem st strm) /\ fb_yytext st' len = firstn len (rem st strm)
          | None => fb_match sc bol st strm = (FbAct None, st', strm') /\ rem st' strm' = rem st strm
          end
      end.
  Proof.
    intros sc bol st strm HI. unfold FlexBuf.fb_match.
    assert (C : carried sc bol st (start_state sc bol) O None).
    { destruct HI as (I1 & _). unfold carried, lexeme. cbn [firstn nojam FlexBuf.prev_state]. split; [lia | auto]. }
    destruct (scan_correct (S (2 * length (fst strm) + (length (fb_data st) - fb_pos st))) sc bol _ _ _ st strm HI C
                ltac:(unfold mu; lia)) as (st' & strm' & HI' & Hres).
    rewrite Nat.add_0_r in Hres. fold (rem st strm) in Hres. cbn [Nat.eqb andb] in Hres. unfold flex_match.
    destruct (rem st strm) as [|c0 r0] eqn:Er; cbn [is_nil] in Hres.
    - destruct Hres as [-> Hr]. exists st', strm'. auto.
    - destruct Hres as (-> & Hr & Hb).
      destruct (run T (start_state sc bol) 0 None (c0 :: r0)) as [[r len]|] eqn:Erun; [|exists st', strm'; auto].
      specialize (Hb r len eq_refl).
      exists (mkFB (fb_data st') (fb_size st') (fb_pos st' + len) (fb_status st') (fb_fill st')), strm'.
      destruct HI' as (J1 & J2 & J3 & J4).
      split; [unfold Inv; cbn [fb_data fb_size fb_pos fb_status fb_fill]; auto|]. split; [reflexivity|].
      assert (Hlen : (len <= length (skipn (fb_pos st') (fb_data st')))%nat) by (rewrite skipn_length; lia).
      split.
      + unfold rem in *. unfold inp_of in *. cbn [fb_data fb_pos fb_fill]. rewrite <- Hr, skipn_app.
        replace (len - length (skipn (fb_pos st') (fb_data st')))%nat with O by lia. cbn [skipn]. rewrite skipn_add. reflexivity.
      + unfold fb_yytext. cbn [fb_data fb_pos]. replace (fb_pos st' + len - len)%nat with (fb_pos st') by lia.
        unfold rem in Hr. rewrite <- Hr, firstn_app. replace (len - length (skipn (fb_pos st') (fb_data st')))%nat with O by lia.
        cbn [firstn]. rewrite app_nil_r. reflexivity.
  Qed.

  (* ---- the whole input ---- *)
  Theorem fb_lex_correct : forall fuel trans sc bol st strm, Inv st strm ->
    fb_lex fuel trans sc bol st strm = ref_lex T fuel trans sc bol (rem st strm).
  Proof.
    induction fuel as [|f IH]; intros trans sc bol st strm HI; [reflexivity|]. cbn [FlexBuf.fb_lex ref_lex].
    destruct (fb_match_correct sc bol st strm HI) as (st' & strm' & HI' & H).
    destruct (rem st strm) as [|c0 r0] eqn:Er.
    - destruct H as [-> _]. reflexivity.
    - destruct (flex_match T sc bol (c0 :: r0)) as [[r len]|].
      + destruct H as (-> & Hr & Hy). rewrite Hy, (IH _ _ _ _ _ HI'), Hr. reflexivity.
      + destruct H as [-> _]. reflexivity.
  Qed.

  (* the two ways a text gets into the scanner *)
  Lemma Inv_string text strm : Inv (fb_of_string text) strm.
  Proof. clear Hrbs. unfold Inv, fb_of_string. cbn. repeat split; try lia; discriminate. Qed.
  Lemma rem_string text strm : rem (fb_of_string text) strm = text.
  Proof. unfold rem, inp_of, fb_of_string. cbn. apply app_nil_r. Qed.
  Lemma Inv_stream buf_size text chunks : (1 <= buf_size)%nat -> Inv (fb_of_stream buf_size) (text, chunks).
  Proof. clear Hrbs. intros H. unfold Inv, fb_of_stream. cbn. repeat split; try lia; discriminate. Qed.
  Lemma rem_stream buf_size text chunks : rem (fb_of_stream buf_size) (text, chunks) = text.
  Proof. reflexivity. Qed.

  (* string input: yy_scan_bytes; what the stream holds is not looked at *)
  Theorem string_lex : forall fuel trans sc bol text strm,
    fb_lex fuel trans sc bol (fb_of_string text) strm = ref_lex T fuel trans sc bol text.
  Proof. intros. rewrite (fb_lex_correct _ _ _ _ _ _ (Inv_string text strm)), rem_string. reflexivity. Qed.

  (* stream input, however the stream delivers its data, whatever the buffer size *)
  Theorem stream_lex : forall fuel trans sc bol buf_size text chunks, (1 <= buf_size)%nat ->
    fb_lex fuel trans sc bol (fb_of_stream buf_size) (text, chunks) = ref_lex T fuel trans sc bol text.
  Proof. intros. rewrite (fb_lex_correct _ _ _ _ _ _ (Inv_stream buf_size text chunks H)). reflexivity. Qed.

  (* (3) two streams over the same bytes (and any two buffer sizes), and the string path *)
  Corollary stream_independent : forall fuel trans sc bol size1 size2 text chunks1 chunks2, (1 <= size1)%nat -> (1 <= size2)%nat ->
    fb_lex fuel trans sc bol (fb_of_stream size1) (text, chunks1) = fb_lex fuel trans sc bol (fb_of_stream size2) (text, chunks2).
  Proof. intros. rewrite !stream_lex by assumption. reflexivity. Qed.

  Corollary stream_is_string : forall fuel trans sc bol size text chunks strm, (1 <= size)%nat ->
    fb_lex fuel trans sc bol (fb_of_stream size) (text, chunks) = fb_lex fuel trans sc bol (fb_of_string text) strm.
  Proof. intros. rewrite stream_lex by assumption. rewrite string_lex. reflexivity. Qed.

  (* (1) where a refill writes: the move of the retained lexeme prefix [0, n), the read of at most num_to_read bytes at
     [n, n + num_to_read), the two sentinels behind the bytes read - all inside the allocation of size + 2 bytes that the
     growth loop has made; the skeleton's second realloc (yy_n_chars + number_to_move > yy_buf_size) never happens *)
  Theorem refill_in_bounds : forall st n strm, Inv st strm -> fb_fill st = true -> fb_status (normalise st) <> BufEofPending ->
    (fb_pos st + n = length (fb_data st))%nat ->
    exists size, grow (S (S n)) (fb_size st) n = Some size /\ (fb_size st <= size)%nat /\
      let num_to_read := Nat.min (size - n - 1) rbs in
      (1 <= num_to_read)%nat /\ (n + num_to_read + 2 <= size + 2)%nat /\
      forall got s', sread num_to_read strm = (got, s') ->
        (length got <= num_to_read)%nat /\ (size <? length got + n)%nat = false /\
        match get_next (normalise st) n strm with
        | EobEOF st' _ | EobContinue st' _ | EobLast st' _ => fb_size st' = size /\ (length (fb_data st') + 2 <= size + 2)%nat
        | EobFatal => False
        end.
  Proof.
    intros st n strm HI Hfill Hst Hn. pose proof HI as (I1 & I2 & I3 & I4). specialize (I3 Hfill).
    destruct (grow_spec n (S (S n)) (fb_size st) I3 ltac:(lia)) as (size & G & L1 & L2).
    exists size. split; [exact G|]. split; [exact L1|]. cbv zeta. split; [lia|]. split; [lia|].
    intros got s' Hs. destruct strm as [inp chunks].
    destruct (sread_spec (Nat.min (size - n - 1) rbs) inp chunks ltac:(lia)) as (k & E & K1 & K2 & K3). rewrite E in Hs. injection Hs as <- <-.
    assert (Lg : length (firstn k inp) = k) by (apply firstn_length_le; exact K2). rewrite Lg.
    split; [exact K1|]. split; [apply Nat.ltb_ge; lia|].
    pose proof (get_next_spec st n (inp, chunks) HI Hn) as Hg.
    assert (Ez : fb_size (normalise st) = fb_size st) by (unfold normalise; destruct (fb_status st); reflexivity).
    assert (Ef : fb_fill (normalise st) = true) by (unfold normalise; destruct (fb_status st); exact Hfill).
    assert (Ed : fb_data (normalise st) = fb_data st) by (unfold normalise; destruct (fb_status st); reflexivity).
    assert (Ep : fb_pos (normalise st) = fb_pos st) by (unfold normalise; destruct (fb_status st); reflexivity).
    unfold FlexBuf.get_next in *. rewrite Ed, Ep, Ef, Ez in *.
    replace (length (fb_data st) + 1 <? fb_pos st + n + 1)%nat with false in * by (symmetry; apply Nat.ltb_ge; lia). cbn [negb] in *.
    destruct (fb_status (normalise st)); [| |contradiction (Hst eq_refl)]; rewrite G, E, Lg in *;
      replace (size <? k + n)%nat with false in * by (symmetry; apply Nat.ltb_ge; lia);
      (destruct (firstn k inp) as [|g0 gr] eqn:Eg;
        [ destruct (n =? 0)%nat; cbn [fb_size fb_data length]; [split; [reflexivity | lia] | split; [reflexivity|]; unfold lexeme; rewrite firstn_length, skipn_length; lia]
        | cbn [fb_size fb_data]; split; [reflexivity|]; rewrite app_length; unfold lexeme; rewrite firstn_length, skipn_length, Lg; lia ]).
  Qed.
End Facts.

(* ================================================================================================================ *)
(* C20 for the scanner as compiled: the tables of lib/scanner.c, YY_BUF_SIZE and YY_READ_BUF_SIZE                      *)
(* ================================================================================================================ *)
Definition BUF : nat := Z.to_nat YY_BUF_SIZE.
Definition RBUF : nat := Z.to_nat YY_READ_BUF_SIZE.
Lemma BUF_pos : (1 <= BUF)%nat.
Proof. unfold BUF, YY_BUF_SIZE. lia. Qed.
Lemma RBUF_pos : (1 <= RBUF)%nat.
Proof. unfold RBUF, YY_READ_BUF_SIZE. lia. Qed.

(* one call of the matcher on a stream buffer in any reachable state: exactly flex_match on the input that remains *)
Theorem C20_match : forall sc bol st strm, Inv st strm ->
  exists st' strm', Inv st' strm' /\
    match rem st strm with
    | [] => fb_match the_tables RBUF sc bol st strm = (FbEOF, st', strm') /\ rem st' strm' = []
    | _ =>
        match flex_match the_tables sc bol (rem st strm) with
        | Some (r, len) =>
            fb_match the_tables RBUF sc bol st strm = (FbAct (Some (r, len)), st', strm') /\
            rem st' strm' = skipn len (rem st strm) /\ fb_yytext st' len = firstn len (rem st strm)
        | None => fb_match the_tables RBUF sc bol st strm = (FbAct None, st', strm') /\ rem st' strm' = rem st strm
        end
    end.
Proof. exact (fb_match_correct the_tables RBUF RBUF_pos). Qed.

(* string, stream and file inputs of the same bytes give the same list of (rule, lexeme) and the same end, however the
   stream delivers its data (file input is stream input) *)
Theorem C20_inputs_agree : forall fuel trans sc bol text chunks1 chunks2 strm,
  fb_lex the_tables RBUF fuel trans sc bol (fb_of_stream BUF) (text, chunks1) =
  fb_lex the_tables RBUF fuel trans sc bol (fb_of_stream BUF) (text, chunks2) /\
  fb_lex the_tables RBUF fuel trans sc bol (fb_of_stream BUF) (text, chunks1) =
  fb_lex the_tables RBUF fuel trans sc bol (fb_of_string text) strm /\
  fb_lex the_tables RBUF fuel trans sc bol (fb_of_stream BUF) (text, chunks1) = ref_lex the_tables fuel trans sc bol text.
Proof.
  intros. split; [apply (stream_independent the_tables RBUF RBUF_pos); apply BUF_pos|].
  split; [apply (stream_is_string the_tables RBUF RBUF_pos); apply BUF_pos | apply (stream_lex the_tables RBUF RBUF_pos); apply BUF_pos].
Qed.

(* the abstraction of Chunked.v agrees: feeding chunks one after the other = flex_match on the concatenation = what the
   buffer machinery computes for the first lexeme of a stream that delivers these chunks *)
Corollary chunked_is_buffered : forall T rbs sc bol chunks lens, (1 <= rbs)%nat -> concat chunks <> [] ->
  exists st' strm', fb_match T rbs sc bol (fb_of_stream 1) (concat chunks, lens) = (FbAct (match_chunked T sc bol chunks), st', strm').
Proof.
  intros T rbs sc bol chunks lens Hr Hne. rewrite chunk_independent.
  destruct (fb_match_correct T rbs Hr sc bol (fb_of_stream 1) (concat chunks, lens) (Inv_stream 1 _ _ (le_n 1))) as (st' & strm' & _ & H).
  rewrite rem_stream in H. destruct (concat chunks) as [|c0 r0] eqn:E; [contradiction|].
  destruct (flex_match T sc bol (c0 :: r0)) as [[r len]|]; exists st', strm'; apply H.
Qed.

(* ---- (4) examples with small sizes: buffer of 8 (and of 1) bytes, reads of at most 4 bytes, a name of 26 bytes, a NUL byte
   inside a string; every chunking gives the reference result; the buffer has been doubled twice for the long name ---- *)
Definition ex_text : bytes :=
  [97;98;99;100;101;102;103;104;105;106;107;108;109;110;111;112;113;114;115;116;117;118;119;120;121;122;32;61;32;49;50;51;52;53;59;10;
   120;61;34;97;0;98;34;10].           (* abcdefghijklmnopqrstuvwxyz = 12345;<LF>x="a<NUL>b"<LF> *)
Definition ex_trans (sc r : Z) : Z := sc.

Example ex_reference :
  ref_lex the_tables 100 ex_trans 0 true ex_text =
    ([(36, [97;98;99;100;101;102;103;104;105;106;107;108;109;110;111;112;113;114;115;116;117;118;119;120;121;122]);
      (29, [32]); (30, [61]); (29, [32]); (38, [49;50;51;52;53]); (46, [59]); (28, [10]);
      (36, [120]); (30, [61]); (8, [34]); (36, [97]); (47, [0]); (36, [98]); (8, [34]); (28, [10])], LexEOF).
Proof. vm_compute. reflexivity. Qed.

Example ex_chunkings :
  fb_lex the_tables 4 100 ex_trans 0 true (fb_of_stream 8) (ex_text, [1;2;3;1;1;5;7;2]%nat) = ref_lex the_tables 100 ex_trans 0 true ex_text /\
  fb_lex the_tables 4 100 ex_trans 0 true (fb_of_stream 8) (ex_text, repeat 1%nat 50) = ref_lex the_tables 100 ex_trans 0 true ex_text /\
  fb_lex the_tables 4 100 ex_trans 0 true (fb_of_stream 8) (ex_text, []) = ref_lex the_tables 100 ex_trans 0 true ex_text /\
  fb_lex the_tables 3 100 ex_trans 0 true (fb_of_stream 1) (ex_text, [3;0;2]%nat) = ref_lex the_tables 100 ex_trans 0 true ex_text /\
  fb_lex the_tables 4 100 ex_trans 0 true (fb_of_string ex_text) ([], []) = ref_lex the_tables 100 ex_trans 0 true ex_text.
Proof. vm_compute. auto 10. Qed.

(* the first call: the 26-byte name does not fit the 8-byte buffer, which is doubled to 16 and to 32 *)
Example ex_growth :
  (let '(r, st, s) := fb_match the_tables 4 0 true (fb_of_stream 8) (ex_text, [1;2;3;1;1;5;7;2]%nat) in
   (r, fb_size st, fb_pos st, length (fb_data st), fb_status st, length (fst s))) =
  (FbAct (Some (36, 26%nat)), 32%nat, 26%nat, 29%nat, BufNormal, 15%nat).
Proof. vm_compute. reflexivity. Qed.

Print Assumptions fb_match_correct.
Print Assumptions fb_lex_correct.
Print Assumptions refill_in_bounds.
Print Assumptions stream_independent.
Print Assumptions C20_match.
Print Assumptions C20_inputs_agree.
Print Assumptions chunked_is_buffered.
