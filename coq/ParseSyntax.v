(* ParseSyntax.v — a syntax error is reported at the first token that cannot continue a derivation
   (lemmas behind Properties_C02):
     (1) locality: the parser's answer depends only on the tokens up to and including the one it stopped at;
     (2) no derivable text begins with the tokens up to and including the offending one;
     (3) the tokens before the offending one do extend to an accepted input. *)
From Coq Require Import List ZArith NArith Bool Lia.
Import ListNotations.
From LC Require Import Base BaseFacts Tree Fp Lookup Api ApiStep ScanAction Tokens Lexer Parser Reader
  TreeFacts ApiFacts GrammarFacts ParseWrite ParseComplete ParseFail ParseExact ParseTotal.

(* ---- results and states ---- *)
Definition st_of (r : pres) : pst := match r with POk s | PErr _ s | PFatal s | PStuck s => s end.
Definition map_res (g : pst -> pst) (r : pres) : pres :=
  match r with POk s => POk (g s) | PErr e s => PErr e (g s) | PFatal s => PFatal (g s) | PStuck s => PStuck (g s) end.
Definition not_stuck (r : pres) : Prop := match r with PStuck _ => False | _ => True end.

Notation len s := (length (p_toks s)).

(* the same state over another token list *)
Definition retoks (s : pst) (l : list ltoken) : pst := mkP (p_root s) l (p_la s) (p_read s) (p_line s) (p_file s).

(* keep all but the last n tokens, then r' *)
Definition sw (n : nat) (r' : list ltoken) (s : pst) : pst :=
  retoks s (firstn (len s - n) (p_toks s) ++ r').

(* the tokens of s' are a suffix of those of s *)
Definition suf (s s' : pst) : Prop := exists c, p_toks s = c ++ p_toks s'.

Lemma suf_refl s : suf s s.
Proof. exists []. reflexivity. Qed.
Lemma suf_trans a b c : suf a b -> suf b c -> suf a c.
Proof. intros (x & Hx) (y & Hy). exists (x ++ y). rewrite Hx, Hy, app_assoc. reflexivity. Qed.
Lemma suf_len a b : suf a b -> (len b <= len a)%nat.
Proof. intros (x & Hx). rewrite Hx, app_length. lia. Qed.
Lemma suf_toks a b : p_toks b = p_toks a -> suf a b.
Proof. intros H. exists []. rewrite H. reflexivity. Qed.
Lemma suf_shift s : suf s (shift s).
Proof. unfold suf, shift. cbn [p_toks]. destruct (p_toks s) as [|t r]; [exists []; reflexivity | exists [t]; reflexivity]. Qed.

Lemma peek_toks s o s' : peek s = (o, s') -> p_toks s' = p_toks s.
Proof. intros H. exact (proj1 (peek_spec _ _ _ H)). Qed.

Lemma peek_la s t s' : peek s = (Some t, s') -> p_la s' = true.
Proof.
  unfold peek. destruct (p_toks s) as [|x r]; [discriminate|]. destruct (p_la s) eqn:La; intros H; injection H as _ <-; [exact La | reflexivity].
Qed.

Lemma peek_linv s o s' : peek s = (o, s') -> linv s -> linv s'.
Proof.
  unfold peek. destruct (p_toks s) as [|x r] eqn:E; [intros H; injection H as _ <-; auto|].
  destruct (p_la s) eqn:La; intros H; injection H as _ <-; [auto|]. intros _ _. exists x, r. cbn. rewrite ?E. auto.
Qed.

Lemma peek_some_toks s t s' : peek s = (Some t, s') -> exists x r, p_toks s = x :: r /\ lt_tok x = t.
Proof.
  unfold peek. destruct (p_toks s) as [|x r]; [discriminate|]. intros H. exists x, r. split; [reflexivity|].
  destruct (p_la s); injection H as H _; exact H.
Qed.

Lemma peek_none_toks s s' : peek s = (None, s') -> p_toks s = [].
Proof. unfold peek. destruct (p_toks s) as [|x r]; [reflexivity|]. destruct (p_la s); discriminate. Qed.

(* ---- the actions only touch the tree ---- *)
Lemma act_name_toks ov s parent nm s' sp : act_name ov s parent nm = Some (s', sp) ->
  p_toks s' = p_toks s /\ p_la s' = p_la s /\ p_line s' = p_line s /\ p_file s' = p_file s.
Proof.
  unfold act_name. destruct (get_at parent (p_root s)); [|discriminate].
  destruct (n_add ov s0 (Some nm) 0) as [[[a b] c]|]; [|discriminate]. intros H. injection H as <- _. cbn. auto.
Qed.

Lemma act_scalar_toks s parent cur sc s' : act_scalar s parent cur sc = Some s' ->
  p_toks s' = p_toks s /\ p_la s' = p_la s /\ p_line s' = p_line s /\ p_file s' = p_file s.
Proof.
  unfold act_scalar. destruct sc as [[t st] fmt]. destruct (in_agg (p_root s) parent).
  - destruct (get_at parent (p_root s)); [|discriminate]. destruct (n_set_elem t st s0 (-1)); try discriminate.
    intros H. injection H as <-. cbn. auto.
  - destruct cur; intros H; injection H as <-; cbn; auto.
Qed.

Lemma act_open_toks ov s parent cur k s' np : act_open ov s parent cur k = Some (s', np) ->
  p_toks s' = p_toks s /\ p_la s' = p_la s /\ p_line s' = p_line s /\ p_file s' = p_file s.
Proof.
  unfold act_open. destruct (ty_at (p_root s) parent).
  all: try (destruct cur; [|discriminate]; intros H; injection H as <- _; cbn; auto).
  destruct (get_at parent (p_root s)); [|discriminate].
  destruct (n_add ov s0 None (aggk_code k)) as [[[a b] c]|]; [|discriminate]. intros H. injection H as <- _. cbn; auto.
Qed.

Lemma linv_same s s' : p_toks s' = p_toks s /\ p_la s' = p_la s /\ p_line s' = p_line s /\ p_file s' = p_file s ->
  linv s -> linv s'.
Proof. intros (H1 & H2 & H3 & H4) L. unfold linv. rewrite H1, H2, H3, H4. exact L. Qed.

Lemma act_name_retoks ov s l parent nm :
  act_name ov (retoks s l) parent nm =
  match act_name ov s parent nm with Some (s', sp) => Some (retoks s' l, sp) | None => None end.
Proof.
  unfold act_name. cbn [retoks p_root p_line p_file]. destruct (get_at parent (p_root s)); [|reflexivity].
  destruct (n_add ov s0 (Some nm) 0) as [[[a b] c]|]; reflexivity.
Qed.

Lemma act_scalar_retoks s l parent cur sc :
  act_scalar (retoks s l) parent cur sc =
  match act_scalar s parent cur sc with Some s' => Some (retoks s' l) | None => None end.
Proof.
  unfold act_scalar. destruct sc as [[t st] fmt]. cbn [retoks p_root p_line p_file]. destruct (in_agg (p_root s) parent).
  - destruct (get_at parent (p_root s)); [|reflexivity]. destruct (n_set_elem t st s0 (-1)); reflexivity.
  - destruct cur; reflexivity.
Qed.

Lemma act_open_retoks ov s l parent cur k :
  act_open ov (retoks s l) parent cur k =
  match act_open ov s parent cur k with Some (s', np) => Some (retoks s' l, np) | None => None end.
Proof.
  unfold act_open. cbn [retoks p_root p_line p_file]. destruct (ty_at (p_root s) parent).
  all: try (destruct cur; reflexivity).
  destruct (get_at parent (p_root s)); [|reflexivity].
  destruct (n_add ov s0 None (aggk_code k)) as [[[a b] c]|]; reflexivity.
Qed.

Lemma retoks_same s s' l : p_toks s' = p_toks s -> retoks s' (firstn (len s - 0) (p_toks s) ++ l) = retoks s' (firstn (len s' - 0) (p_toks s') ++ l).
Proof. intros ->. reflexivity. Qed.

(* setting_terminator *)
Definition skip_term (s4 : pst) : pst :=
  match peek s4 with
  | (Some (TkP TSemicolon), s5) => shift s5
  | (Some (TkP TComma), s5) => shift s5
  | (_, s5) => s5
  end.

Lemma p_settings_S' ov f s parent :
  p_settings ov (S f) s parent =
  match peek s with
  | (None, s') => PFatal s'
  | (Some (TkName nm), s') =>
      match act_name ov (shift s') parent nm with
      | None => PErr PErrDup (shift s')
      | Some (s2, sp) =>
          match expect s2 TEquals with
          | POk s3 =>
              match p_value ov f s3 parent (Some sp) false with
              | POk s4 => p_settings ov f (skip_term s4) parent
              | PErr e s0 => PErr e s0 | PFatal s0 => PFatal s0 | PStuck s0 => PStuck s0
              end
          | PErr e s0 => PErr e s0 | PFatal s0 => PFatal s0 | PStuck s0 => PStuck s0
          end
      end
  | (Some _, s') => POk s'
  end.
Proof. reflexivity. Qed.

Lemma skip_term_suf s4 : suf s4 (skip_term s4) /\ (linv s4 -> linv (skip_term s4)).
Proof.
  unfold skip_term. destruct (peek s4) as [o4 s5] eqn:P4. pose proof (peek_toks _ _ _ P4) as T5. pose proof (peek_linv _ _ _ P4) as L5.
  assert (Hkeep : suf s4 s5 /\ (linv s4 -> linv s5)) by (split; [apply suf_toks; exact T5 | exact L5]).
  assert (Hshift : suf s4 (shift s5) /\ (linv s4 -> linv (shift s5))).
  { split; [apply (suf_trans _ s5); [apply suf_toks; exact T5 | apply suf_shift] | intros _; apply linv_shift]. }
  destruct o4 as [t4|]; [|exact Hkeep]. destruct t4 as [bv|iv|lv|hv|hlv|fb|str|nm4|pt4| | ]; try exact Hkeep.
  destruct pt4; try exact Hkeep; exact Hshift.
Qed.

Lemma skip_term_len s4 : (len (skip_term s4) <= len s4)%nat.
Proof. apply suf_len. apply skip_term_suf. Qed.

(* ------------------------------------------------------------------------------------ *)
(* what every call does to the stream: it leaves a suffix; the look-ahead bookkeeping stays right; a syntax error
   is raised on a token that has been read *)
Section Mono.
  Variable ov : bool.

  Definition mres (s : pst) (r : pres) : Prop :=
    suf s (st_of r) /\ (linv s -> linv (st_of r)) /\ (forall s2, r = PErr PErrSyntax s2 -> p_la s2 = true).

  Lemma mres_trans s s1 r : suf s s1 -> (linv s -> linv s1) -> mres s1 r -> mres s r.
  Proof. intros S1 L1 (S2 & L2 & E2). split; [exact (suf_trans _ _ _ S1 S2)|]. split; [auto | exact E2]. Qed.

  Lemma mres_here s s1 : suf s s1 -> (linv s -> linv s1) -> forall r, st_of r = s1 -> (forall s2, r = PErr PErrSyntax s2 -> p_la s2 = true) -> mres s r.
  Proof. intros S1 L1 r <- E. split; [exact S1|]. split; [exact L1 | exact E]. Qed.

  Lemma p_string_mono : forall fuel s acc, suf s (snd (p_string fuel s acc)) /\ (linv s -> linv (snd (p_string fuel s acc))).
  Proof.
    induction fuel as [|f IH]; intros s acc; cbn [p_string]; [split; [apply suf_refl | auto]|].
    destruct (peek s) as [o s1] eqn:P. pose proof (peek_toks _ _ _ P) as T1. pose proof (peek_linv _ _ _ P) as L1.
    assert (Hstay : suf s (snd (Some acc, s1)) /\ (linv s -> linv (snd (Some acc, s1)))) by (cbn [snd]; split; [apply suf_toks; exact T1 | exact L1]).
    destruct o as [t|]; [|exact Hstay]. destruct t; try exact Hstay.
    destruct (IH (shift s1) (acc ++ s0)) as [I1 I2]. split.
    - apply (suf_trans _ s1); [apply suf_toks; exact T1|]. apply (suf_trans _ (shift s1)); [apply suf_shift | exact I1].
    - intros L. apply I2. apply linv_shift.
  Qed.

  Lemma expect_mono s p : mres s (expect s p).
  Proof.
    unfold expect. destruct (peek s) as [o s1] eqn:P. pose proof (peek_toks _ _ _ P) as T1. pose proof (peek_linv _ _ _ P) as L1.
    assert (Hs1 : suf s s1) by (apply suf_toks; exact T1).
    destruct o as [t|]; [|apply (mres_here s s1); auto; discriminate].
    pose proof (peek_la _ _ _ P) as La.
    assert (Herr : mres s (PErr PErrSyntax s1)) by (apply (mres_here s s1); auto; intros s2 H; injection H as <-; exact La).
    destruct t; try exact Herr.
    destruct (match p, t with
              | TEquals, TEquals | TArrayEnd, TArrayEnd | TListEnd, TListEnd | TGroupEnd, TGroupEnd => true
              | _, _ => false end); [|exact Herr].
    apply (mres_here s (shift s1)); [apply (suf_trans _ s1); [exact Hs1 | apply suf_shift] | intros _; apply linv_shift | reflexivity | discriminate].
  Qed.

  Definition M_value (f : nat) : Prop := forall s parent cur simple, mres s (p_value ov f s parent cur simple).
  Definition M_agg (f : nat) : Prop := forall s parent cur k, mres s (p_agg ov f s parent cur k).
  Definition M_elems (f : nat) : Prop := forall s parent simple first, mres s (p_elems ov f s parent simple first).
  Definition M_settings (f : nat) : Prop := forall s parent, mres s (p_settings ov f s parent).

  Lemma mres_stuck s : mres s (PStuck s).
  Proof. apply (mres_here s s); auto using suf_refl. discriminate. Qed.

  Theorem parser_mono : forall f, M_value f /\ M_agg f /\ M_elems f /\ M_settings f.
  Proof.
    induction f as [|f (IHv & IHa & IHe & IHs)].
    { repeat split; intros *; try apply suf_refl; cbn; auto; discriminate. }
    assert (Hv : M_value (S f)).
    { intros s parent cur simple. rewrite p_value_S.
      destruct (peek s) as [o s1] eqn:P. pose proof (peek_toks _ _ _ P) as T1. pose proof (peek_linv _ _ _ P) as L1.
      assert (Hs1 : suf s s1) by (apply suf_toks; exact T1).
      destruct o as [t|]; [|apply (mres_here s s1); auto; discriminate].
      pose proof (peek_la _ _ _ P) as La.
      assert (Herr : mres s (PErr PErrSyntax s1)) by (apply (mres_here s s1); auto; intros s2 H; injection H as <-; exact La).
      assert (Hsc : forall sc, mres s (match act_scalar (shift s1) parent cur sc with
                                       | Some s3 => POk s3 | None => PErr PErrMismatch (shift s1) end)).
      { intros sc. destruct (act_scalar (shift s1) parent cur sc) as [s3|] eqn:A.
        - pose proof (act_scalar_toks _ _ _ _ _ A) as HA. apply (mres_here s s3); [| |reflexivity|discriminate].
          + apply (suf_trans _ s1); [exact Hs1|]. apply (suf_trans _ (shift s1)); [apply suf_shift | apply suf_toks; apply HA].
          + intros _. apply (linv_same (shift s1)); [exact HA | apply linv_shift].
        - apply (mres_here s (shift s1)); [apply (suf_trans _ s1); [exact Hs1 | apply suf_shift] | intros _; apply linv_shift | reflexivity | discriminate]. }
      assert (Hag : forall k, mres s (p_agg ov f (shift s1) parent cur k)).
      { intros k. apply (mres_trans s (shift s1)); [apply (suf_trans _ s1); [exact Hs1 | apply suf_shift] | intros _; apply linv_shift | apply IHa]. }
      destruct t as [bv|iv|lv|hv|hlv|fb|str|nm|pt| | ]; try exact Herr; try apply Hsc.
      - destruct (p_string f s1 []) as [[v|] s2] eqn:Ps.
        + destruct (p_string_mono f s1 []) as [I1 I2]. rewrite Ps in I1, I2. cbn [snd] in I1, I2.
          destruct (act_scalar s2 parent cur (string_scalar v)) as [s3|] eqn:A.
          * pose proof (act_scalar_toks _ _ _ _ _ A) as HA. apply (mres_here s s3); [| |reflexivity|discriminate].
            -- apply (suf_trans _ s1); [exact Hs1|]. apply (suf_trans _ s2); [exact I1 | apply suf_toks; apply HA].
            -- intros L. apply (linv_same s2); [exact HA | auto].
          * apply (mres_here s s2); [apply (suf_trans _ s1); assumption | auto | reflexivity | discriminate].
        + destruct (p_string_mono f s1 []) as [I1 I2]. rewrite Ps in I1, I2. cbn [snd] in I1, I2.
          apply (mres_here s s2); [apply (suf_trans _ s1); assumption | auto | reflexivity | discriminate].
      - destruct pt; try exact Herr; destruct simple; try exact Herr; apply Hag. }
    assert (Ha : M_agg (S f)).
    { intros s parent cur k. rewrite p_agg_S.
      destruct (act_open ov s parent cur k) as [[s1 np]|] eqn:A; [|apply mres_stuck].
      pose proof (act_open_toks _ _ _ _ _ _ _ A) as HA. cbv zeta.
      apply (mres_trans s s1); [apply suf_toks; apply HA | apply linv_same; exact HA|].
      assert (Hb : forall body cl, mres s1 body -> mres s1 (match body with POk s2 => expect s2 cl | r => r end)).
      { intros body cl Hb. destruct body as [s2|e s2|s2|s2]; try exact Hb.
        destruct Hb as (B1 & B2 & _). cbn [st_of] in B1, B2. apply (mres_trans s1 s2); [exact B1 | exact B2 | apply expect_mono]. }
      destruct k; apply Hb; [apply IHe | apply IHe | apply IHs]. }
    assert (He : M_elems (S f)).
    { intros s parent simple first. rewrite p_elems_S.
      destruct (peek s) as [o s1] eqn:P. pose proof (peek_toks _ _ _ P) as T1. pose proof (peek_linv _ _ _ P) as L1.
      assert (Hs1 : suf s s1) by (apply suf_toks; exact T1).
      destruct o as [t|]; [|apply (mres_here s s1); auto; discriminate].
      assert (Hstay : mres s (POk s1)) by (apply (mres_here s s1); auto; discriminate).
      assert (Hval : forall sa, suf s sa -> (linv s -> linv sa) ->
                mres s (match p_value ov f sa parent None simple with
                        | POk s2 => p_elems ov f s2 parent simple false | r => r end)).
      { intros sa Sa La. apply (mres_trans s sa); [exact Sa | exact La|].
        pose proof (IHv sa parent None simple) as Hv1. destruct (p_value ov f sa parent None simple) as [s2|e s2|s2|s2]; try exact Hv1.
        destruct Hv1 as (B1 & B2 & _). cbn [st_of] in B1, B2. apply (mres_trans sa s2); [exact B1 | exact B2 | apply IHe]. }
      destruct first.
      - destruct (is_value_start simple t); [apply Hval; assumption | exact Hstay].
      - destruct t as [bv|iv|lv|hv|hlv|fb|str|nm|pt| | ]; try exact Hstay. destruct pt; try exact Hstay. cbv zeta.
        destruct (peek (shift s1)) as [o2 s3] eqn:P2. pose proof (peek_toks _ _ _ P2) as T3. pose proof (peek_linv _ _ _ P2) as L3.
        assert (Hs3 : suf s s3).
        { apply (suf_trans _ s1); [exact Hs1|]. apply (suf_trans _ (shift s1)); [apply suf_shift | apply suf_toks; exact T3]. }
        assert (Hl3 : linv s -> linv s3) by (intros _; apply L3; apply linv_shift).
        destruct o2 as [t2|]; [|apply (mres_here s s3); auto; discriminate].
        destruct (is_value_start simple t2); [apply Hval; assumption|].
        apply (mres_trans s s3); [exact Hs3 | exact Hl3 | apply IHe]. }
    assert (Hs : M_settings (S f)).
    { intros s parent. rewrite p_settings_S.
      destruct (peek s) as [o s1] eqn:P. pose proof (peek_toks _ _ _ P) as T1. pose proof (peek_linv _ _ _ P) as L1.
      assert (Hs1 : suf s s1) by (apply suf_toks; exact T1).
      destruct o as [t|]; [|apply (mres_here s s1); auto; discriminate].
      assert (Hstay : mres s (POk s1)) by (apply (mres_here s s1); auto; discriminate).
      destruct t as [bv|iv|lv|hv|hlv|fb|str|nm|pt| | ]; try exact Hstay. cbv zeta.
      assert (Hsh : suf s (shift s1)) by (apply (suf_trans _ s1); [exact Hs1 | apply suf_shift]).
      destruct (act_name ov (shift s1) parent nm) as [[s2 sp]|] eqn:A;
        [|apply (mres_here s (shift s1)); [exact Hsh | intros _; apply linv_shift | reflexivity | discriminate]].
      pose proof (act_name_toks _ _ _ _ _ _ A) as HA.
      apply (mres_trans s s2); [apply (suf_trans _ (shift s1)); [exact Hsh | apply suf_toks; apply HA] | intros _; apply (linv_same (shift s1)); [exact HA | apply linv_shift]|].
      pose proof (expect_mono s2 TEquals) as Hx. destruct (expect s2 TEquals) as [s3|e s3|s3|s3]; try exact Hx.
      destruct Hx as (X1 & X2 & _). cbn [st_of] in X1, X2. apply (mres_trans s2 s3); [exact X1 | exact X2|].
      pose proof (IHv s3 parent (Some sp) false) as Hv1. destruct (p_value ov f s3 parent (Some sp) false) as [s4|e s4|s4|s4]; try exact Hv1.
      destruct Hv1 as (V1 & V2 & _). cbn [st_of] in V1, V2. apply (mres_trans s3 s4); [exact V1 | exact V2|].
      set (s6 := match peek s4 with
                 | (Some (TkP TSemicolon), s5) => shift s5
                 | (Some (TkP TComma), s5) => shift s5
                 | (_, s5) => s5 end).
      assert (H6 : suf s4 s6 /\ (linv s4 -> linv s6)).
      { unfold s6. destruct (peek s4) as [o4 s5] eqn:P4. pose proof (peek_toks _ _ _ P4) as T5. pose proof (peek_linv _ _ _ P4) as L5.
        assert (Hkeep : suf s4 s5 /\ (linv s4 -> linv s5)) by (split; [apply suf_toks; exact T5 | exact L5]).
        assert (Hshift : suf s4 (shift s5) /\ (linv s4 -> linv (shift s5))).
        { split; [apply (suf_trans _ s5); [apply suf_toks; exact T5 | apply suf_shift] | intros _; apply linv_shift]. }
        destruct o4 as [t4|]; [|exact Hkeep]. destruct t4 as [bv|iv|lv|hv|hlv|fb|str|nm4|pt4| | ]; try exact Hkeep.
        destruct pt4; try exact Hkeep; exact Hshift. }
      destruct H6 as [S6 L6]. apply (mres_trans s4 s6); [exact S6 | exact L6 | apply IHs]. }
    auto.
  Qed.

  Lemma value_len f s parent cur simple : (len (st_of (p_value ov f s parent cur simple)) <= len s)%nat.
  Proof. apply suf_len. apply (proj1 (parser_mono f)). Qed.
  Lemma agg_len f s parent cur k : (len (st_of (p_agg ov f s parent cur k)) <= len s)%nat.
  Proof. apply suf_len. apply (proj1 (proj2 (parser_mono f))). Qed.
  Lemma elems_len f s parent simple first : (len (st_of (p_elems ov f s parent simple first)) <= len s)%nat.
  Proof. apply suf_len. apply (proj1 (proj2 (proj2 (parser_mono f)))). Qed.
  Lemma settings_len f s parent : (len (st_of (p_settings ov f s parent)) <= len s)%nat.
  Proof. apply suf_len. apply (proj2 (proj2 (proj2 (parser_mono f)))). Qed.
  Lemma string_len f s acc : (len (snd (p_string f s acc)) <= len s)%nat.
  Proof. apply suf_len. apply p_string_mono. Qed.
  Lemma expect_len s p : (len (st_of (expect s p)) <= len s)%nat.
  Proof. apply suf_len. apply expect_mono. Qed.
End Mono.

(* ------------------------------------------------------------------------------------ *)
(* (1) locality: as long as more than n tokens remain in the answer's state, the last n tokens of the input may
   be replaced by anything: the parser only looks at the head of the stream *)
Section Loc.
  Variable ov : bool.
  Variable n : nat.
  Variable r' : list ltoken.
  Notation sw := (sw n r').

  Lemma sw_eq s t r0 : p_toks s = t :: r0 -> (n <= length r0)%nat ->
    sw s = retoks s (t :: firstn (length r0 - n) r0 ++ r').
  Proof.
    intros E H. unfold ParseSyntax.sw. rewrite E. cbn [length]. replace (S (length r0) - n)%nat with (S (length r0 - n)) by lia. reflexivity.
  Qed.

  Lemma sw_same s s' : p_toks s' = p_toks s -> retoks s' (firstn (len s - n) (p_toks s) ++ r') = sw s'.
  Proof. intros E. unfold ParseSyntax.sw. rewrite E. reflexivity. Qed.

  Lemma peek_sw s : (n < len s)%nat -> peek (sw s) = (fst (peek s), sw (snd (peek s))).
  Proof.
    intros H. destruct (p_toks s) as [|t r0] eqn:E; [cbn in H; lia|]. cbn [length] in H.
    rewrite (sw_eq s t r0 E) by lia. unfold peek. cbn [retoks p_toks p_la p_root p_read]. rewrite E.
    destruct (p_la s) eqn:La; cbn [fst snd].
    - rewrite (sw_eq s t r0 E) by lia. reflexivity.
    - rewrite (sw_eq (mkP (p_root s) (t :: r0) true (S (p_read s)) (lt_line t) (lt_file t)) t r0 eq_refl) by lia. reflexivity.
  Qed.

  Lemma shift_sw s : (n < len s)%nat -> shift (sw s) = sw (shift s).
  Proof.
    intros H. destruct (p_toks s) as [|t r0] eqn:E; [cbn in H; lia|]. cbn [length] in H.
    rewrite (sw_eq s t r0 E) by lia. unfold shift, ParseSyntax.sw, retoks. cbn [p_toks p_la p_root p_read p_line p_file tl]. rewrite E. reflexivity.
  Qed.

  Lemma act_name_sw s parent nm :
    act_name ov (sw s) parent nm = match act_name ov s parent nm with Some (s', sp) => Some (sw s', sp) | None => None end.
  Proof.
    unfold ParseSyntax.sw at 1. rewrite act_name_retoks. destruct (act_name ov s parent nm) as [[s' sp]|] eqn:A; [|reflexivity].
    rewrite (sw_same s s' (proj1 (act_name_toks _ _ _ _ _ _ A))). reflexivity.
  Qed.

  Lemma act_scalar_sw s parent cur sc :
    act_scalar (sw s) parent cur sc = match act_scalar s parent cur sc with Some s' => Some (sw s') | None => None end.
  Proof.
    unfold ParseSyntax.sw at 1. rewrite act_scalar_retoks. destruct (act_scalar s parent cur sc) as [s'|] eqn:A; [|reflexivity].
    rewrite (sw_same s s' (proj1 (act_scalar_toks _ _ _ _ _ A))). reflexivity.
  Qed.

  Lemma act_open_sw s parent cur k :
    act_open ov (sw s) parent cur k = match act_open ov s parent cur k with Some (s', np) => Some (sw s', np) | None => None end.
  Proof.
    unfold ParseSyntax.sw at 1. rewrite act_open_retoks. destruct (act_open ov s parent cur k) as [[s' np]|] eqn:A; [|reflexivity].
    rewrite (sw_same s s' (proj1 (act_open_toks _ _ _ _ _ _ _ A))). reflexivity.
  Qed.

  Lemma expect_sw s p : (n < len s)%nat -> expect (sw s) p = map_res sw (expect s p).
  Proof.
    intros H. unfold expect. rewrite (peek_sw s H). destruct (peek s) as [o s1] eqn:P. cbn [fst snd].
    pose proof (peek_toks _ _ _ P) as T1.
    destruct o as [t|]; [|reflexivity]. destruct t; try reflexivity.
    destruct (match p, t with
              | TEquals, TEquals | TArrayEnd, TArrayEnd | TListEnd, TListEnd | TGroupEnd, TGroupEnd => true
              | _, _ => false end); [|reflexivity].
    cbn [map_res]. rewrite shift_sw by (rewrite T1; exact H). reflexivity.
  Qed.

  Lemma string_sw : forall f s acc, (n < len (snd (p_string f s acc)))%nat ->
    p_string f (sw s) acc = (fst (p_string f s acc), sw (snd (p_string f s acc))).
  Proof.
    induction f as [|f IH]; intros s acc H; [reflexivity|].
    pose proof (string_len (S f) s acc) as Hl. cbn [p_string] in *.
    rewrite (peek_sw s) by lia. destruct (peek s) as [o s1] eqn:P. cbn [fst snd].
    pose proof (peek_toks _ _ _ P) as T1.
    destruct o as [t|]; [|reflexivity]. destruct t; try reflexivity.
    rewrite shift_sw by (rewrite T1; lia). apply IH. exact H.
  Qed.

  Lemma skip_term_sw s4 : (n < len s4)%nat -> skip_term (sw s4) = sw (skip_term s4).
  Proof.
    intros H. unfold skip_term in *. rewrite (peek_sw s4) by lia.
    destruct (peek s4) as [o4 s5] eqn:P4. cbn [fst snd]. pose proof (peek_toks _ _ _ P4) as T5.
    pose proof (suf_len _ _ (suf_shift s5)) as Hsh.
    destruct o4 as [t4|]; [|reflexivity]. destruct t4 as [bv|iv|lv|hv|hlv|fb|str|nm4|pt4| | ]; try reflexivity.
    destruct pt4; try reflexivity; apply shift_sw; rewrite T5; exact H.
  Qed.

  Definition L_value (f : nat) : Prop := forall s parent cur simple,
    (n < len (st_of (p_value ov f s parent cur simple)))%nat ->
    p_value ov f (sw s) parent cur simple = map_res sw (p_value ov f s parent cur simple).
  Definition L_agg (f : nat) : Prop := forall s parent cur k,
    (n < len (st_of (p_agg ov f s parent cur k)))%nat ->
    p_agg ov f (sw s) parent cur k = map_res sw (p_agg ov f s parent cur k).
  Definition L_elems (f : nat) : Prop := forall s parent simple first,
    (n < len (st_of (p_elems ov f s parent simple first)))%nat ->
    p_elems ov f (sw s) parent simple first = map_res sw (p_elems ov f s parent simple first).
  Definition L_settings (f : nat) : Prop := forall s parent,
    (n < len (st_of (p_settings ov f s parent)))%nat ->
    p_settings ov f (sw s) parent = map_res sw (p_settings ov f s parent).

  (* sequencing: a first call, then a continuation on its POk state *)
  Lemma seq_sw (first firstA : pres) (k : pst -> pres) :
    (forall s2, (len (st_of (k s2)) <= len s2)%nat) ->
    ((n < len (st_of first))%nat -> firstA = map_res sw first) ->
    (forall s2, first = POk s2 -> (n < len (st_of (k s2)))%nat -> k (sw s2) = map_res sw (k s2)) ->
    (n < len (st_of (match first with POk s2 => k s2 | r => r end)))%nat ->
    match firstA with POk s2 => k s2 | r => r end = map_res sw (match first with POk s2 => k s2 | r => r end).
  Proof.
    intros Hk H1 H2 H.
    assert (H0 : (n < len (st_of first))%nat) by (destruct first as [s2|e s2|s2|s2]; try exact H; cbn [st_of]; pose proof (Hk s2); lia).
    rewrite (H1 H0). destruct first as [s2|e s2|s2|s2]; cbn [map_res]; try reflexivity. apply H2; [reflexivity | exact H].
  Qed.

  Lemma seq_sw' (first firstA : pres) (k : pst -> pres) :
    (forall s2, (len (st_of (k s2)) <= len s2)%nat) ->
    ((n < len (st_of first))%nat -> firstA = map_res sw first) ->
    (forall s2, first = POk s2 -> (n < len (st_of (k s2)))%nat -> k (sw s2) = map_res sw (k s2)) ->
    (n < len (st_of (match first with POk s2 => k s2 | PErr e s0 => PErr e s0 | PFatal s0 => PFatal s0 | PStuck s0 => PStuck s0 end)))%nat ->
    match firstA with POk s2 => k s2 | PErr e s0 => PErr e s0 | PFatal s0 => PFatal s0 | PStuck s0 => PStuck s0 end =
    map_res sw (match first with POk s2 => k s2 | PErr e s0 => PErr e s0 | PFatal s0 => PFatal s0 | PStuck s0 => PStuck s0 end).
  Proof.
    intros Hk H1 H2 H.
    assert (H0 : (n < len (st_of first))%nat) by (destruct first as [s2|e s2|s2|s2]; try exact H; cbn [st_of]; pose proof (Hk s2); lia).
    rewrite (H1 H0). destruct first as [s2|e s2|s2|s2]; cbn [map_res]; try reflexivity. apply H2; [reflexivity | exact H].
  Qed.

  Theorem parser_local : forall f, L_value f /\ L_agg f /\ L_elems f /\ L_settings f.
  Proof.
    induction f as [|f (IHv & IHa & IHe & IHs)].
    { repeat split; intros *; reflexivity. }
    assert (Hv : L_value (S f)).
    { intros s parent cur simple H. pose proof (value_len ov (S f) s parent cur simple) as Hl.
      assert (Hn : (n < len s)%nat) by lia. clear Hl.
      rewrite !p_value_S. rewrite p_value_S in H. rewrite (peek_sw s) by lia.
      destruct (peek s) as [o s1] eqn:P. cbn [fst snd]. pose proof (peek_toks _ _ _ P) as T1.
      destruct o as [t|]; [|reflexivity].
      assert (Hn1 : (n < len s1)%nat) by (rewrite T1; lia).
      assert (Hsc : forall sc,
                match act_scalar (shift (sw s1)) parent cur sc with Some s3 => POk s3 | None => PErr PErrMismatch (shift (sw s1)) end =
                map_res sw (match act_scalar (shift s1) parent cur sc with Some s3 => POk s3 | None => PErr PErrMismatch (shift s1) end)).
      { intros sc. rewrite shift_sw by exact Hn1. rewrite act_scalar_sw. destruct (act_scalar (shift s1) parent cur sc); reflexivity. }
      destruct t as [bv|iv|lv|hv|hlv|fb|str|nm|pt| | ]; try reflexivity; try apply Hsc.
      - assert (Hs2 : (n < len (snd (p_string f s1 [])))%nat).
        { destruct (p_string f s1 []) as [[v|] s2]; cbn [snd]; [|exact H].
          destruct (act_scalar s2 parent cur (string_scalar v)) as [s3|] eqn:A; [|exact H].
          cbn [st_of] in H. rewrite (proj1 (act_scalar_toks _ _ _ _ _ A)) in H. exact H. }
        rewrite (string_sw f s1 [] Hs2). destruct (p_string f s1 []) as [[v|] s2]; cbn [fst snd]; [|reflexivity].
        rewrite act_scalar_sw. destruct (act_scalar s2 parent cur (string_scalar v)); reflexivity.
      - destruct pt; try reflexivity; destruct simple; try reflexivity; rewrite shift_sw by exact Hn1; apply IHa; exact H. }
    assert (Ha : L_agg (S f)).
    { intros s parent cur k H. rewrite !p_agg_S. rewrite p_agg_S in H. rewrite act_open_sw.
      destruct (act_open ov s parent cur k) as [[s1 np]|]; [|reflexivity]. cbv zeta in *.
      destruct k; apply seq_sw; try exact H; try (intros s2; apply expect_len); try (intros s2 _ H2; apply expect_sw; pose proof (expect_len s2 TArrayEnd); pose proof (expect_len s2 TListEnd); pose proof (expect_len s2 TGroupEnd); lia).
      - apply IHe.
      - apply IHe.
      - apply IHs. }
    assert (He : L_elems (S f)).
    { intros s parent simple first H. pose proof (elems_len ov (S f) s parent simple first) as Hl.
      assert (Hn : (n < len s)%nat) by lia. clear Hl.
      rewrite !p_elems_S. rewrite p_elems_S in H. rewrite (peek_sw s) by lia.
      destruct (peek s) as [o s1] eqn:P. cbn [fst snd]. pose proof (peek_toks _ _ _ P) as T1.
      destruct o as [t|]; [|reflexivity].
      assert (Hn1 : (n < len s1)%nat) by (rewrite T1; lia).
      assert (Hval : forall sa,
                (n < len (st_of (match p_value ov f sa parent None simple with
                                 | POk s2 => p_elems ov f s2 parent simple false | r => r end)))%nat ->
                match p_value ov f (sw sa) parent None simple with
                | POk s2 => p_elems ov f s2 parent simple false | r => r end =
                map_res sw (match p_value ov f sa parent None simple with
                            | POk s2 => p_elems ov f s2 parent simple false | r => r end)).
      { intros sa Ha'. apply (seq_sw' _ _ (fun s2 => p_elems ov f s2 parent simple false)); [intros s2; apply elems_len | apply IHv | intros s2 _; apply IHe | exact Ha']. }
      destruct first.
      - destruct (is_value_start simple t); [apply Hval; exact H | reflexivity].
      - destruct t as [bv|iv|lv|hv|hlv|fb|str|nm|pt| | ]; try reflexivity. destruct pt; try reflexivity. cbv zeta in *.
        rewrite shift_sw by exact Hn1.
        assert (Hn2 : (n < len (shift s1))%nat).
        { destruct (peek (shift s1)) as [o2 s3] eqn:P2. pose proof (peek_toks _ _ _ P2) as T3. rewrite <- T3.
          destruct o2 as [t2|]; [|exact H]. destruct (is_value_start simple t2).
          - pose proof (value_len ov f s3 parent None simple) as Hl3.
            destruct (p_value ov f s3 parent None simple) as [s4|e s4|s4|s4]; cbn [st_of] in *; try lia.
            pose proof (elems_len ov f s4 parent simple false). lia.
          - pose proof (elems_len ov f s3 parent simple false). lia. }
        rewrite (peek_sw (shift s1) Hn2). destruct (peek (shift s1)) as [o2 s3] eqn:P2. cbn [fst snd].
        destruct o2 as [t2|]; [|reflexivity].
        destruct (is_value_start simple t2); [apply Hval; exact H | apply IHe; exact H]. }
    assert (Hs : L_settings (S f)).
    { intros s parent H. pose proof (settings_len ov (S f) s parent) as Hl.
      assert (Hn : (n < len s)%nat) by lia. clear Hl.
      rewrite !p_settings_S'. rewrite p_settings_S' in H. rewrite (peek_sw s) by lia.
      destruct (peek s) as [o s1] eqn:P. cbn [fst snd]. pose proof (peek_toks _ _ _ P) as T1.
      destruct o as [t|]; [|reflexivity].
      assert (Hn1 : (n < len s1)%nat) by (rewrite T1; lia).
      destruct t as [bv|iv|lv|hv|hlv|fb|str|nm|pt| | ]; try reflexivity.
      rewrite shift_sw by exact Hn1. rewrite act_name_sw.
      destruct (act_name ov (shift s1) parent nm) as [[s2 sp]|] eqn:A; [|reflexivity].
      assert (Hk4 : forall s4, (len (st_of (p_settings ov f (skip_term s4) parent)) <= len s4)%nat).
      { intros s4. pose proof (settings_len ov f (skip_term s4) parent). pose proof (skip_term_len s4). lia. }
      apply (seq_sw' _ _ (fun s3 => match p_value ov f s3 parent (Some sp) false with
                                    | POk s4 => p_settings ov f (skip_term s4) parent
                                    | PErr e s0 => PErr e s0 | PFatal s0 => PFatal s0 | PStuck s0 => PStuck s0 end)); [| | |exact H].
      - intros s3. pose proof (value_len ov f s3 parent (Some sp) false) as Hl3.
        destruct (p_value ov f s3 parent (Some sp) false) as [s4|e s4|s4|s4]; cbn [st_of] in *; try lia.
        pose proof (Hk4 s4). lia.
      - intros Hx. apply expect_sw. pose proof (expect_len s2 TEquals). lia.
      - intros s3 _ H3.
        apply (seq_sw' _ _ (fun s4 => p_settings ov f (skip_term s4) parent)); [exact Hk4 | apply IHv | | exact H3].
        intros s4 _ H4. pose proof (settings_len ov f (skip_term s4) parent) as Hl6.
        pose proof (skip_term_len s4) as Hl7. rewrite skip_term_sw by lia. apply IHs. exact H4. }
    auto.
  Qed.
End Loc.

(* ------------------------------------------------------------------------------------ *)
(* sequencing, and the one-step unfoldings written with it *)
Definition bind (r : pres) (k : pst -> pres) : pres :=
  match r with POk s2 => k s2 | PErr e s0 => PErr e s0 | PFatal s0 => PFatal s0 | PStuck s0 => PStuck s0 end.

Definition abody (ov : bool) (k : aggk) (f : nat) (s1 : pst) (np : ipath) : pres :=
  match k with
  | KGrp => p_settings ov f s1 np
  | KArr => p_elems ov f s1 np true true
  | KLst => p_elems ov f s1 np false true
  end.

Lemma p_agg_B ov f s parent cur k :
  p_agg ov (S f) s parent cur k =
  match act_open ov s parent cur k with
  | None => PStuck s
  | Some (s1, np) => bind (abody ov k f s1 np) (fun s2 => expect s2 (close_of k))
  end.
Proof.
  rewrite p_agg_S. destruct (act_open ov s parent cur k) as [[s1 np]|]; [|reflexivity]. cbv zeta.
  destruct k; cbn [abody close_of]; match goal with |- context [bind ?b _] => destruct b end; reflexivity.
Qed.

Lemma p_elems_B ov f s parent simple first :
  p_elems ov (S f) s parent simple first =
  match peek s with
  | (None, s') => PFatal s'
  | (Some t, s') =>
      if first then
        if is_value_start simple t then
          bind (p_value ov f s' parent None simple) (fun s2 => p_elems ov f s2 parent simple false)
        else POk s'
      else
        match t with
        | TkP TComma =>
            match peek (shift s') with
            | (None, s3) => PFatal s3
            | (Some t2, s3) =>
                if is_value_start simple t2 then
                  bind (p_value ov f s3 parent None simple) (fun s4 => p_elems ov f s4 parent simple false)
                else p_elems ov f s3 parent simple false
            end
        | _ => POk s'
        end
  end.
Proof. reflexivity. Qed.

Lemma p_settings_B ov f s parent :
  p_settings ov (S f) s parent =
  match peek s with
  | (None, s') => PFatal s'
  | (Some (TkName nm), s') =>
      match act_name ov (shift s') parent nm with
      | None => PErr PErrDup (shift s')
      | Some (s2, sp) =>
          bind (expect s2 TEquals) (fun s3 =>
          bind (p_value ov f s3 parent (Some sp) false) (fun s4 =>
          p_settings ov f (skip_term s4) parent))
      end
  | (Some _, s') => POk s'
  end.
Proof. reflexivity. Qed.

Lemma p_config_B ov s :
  p_config ov s =
  bind (p_settings ov (S (4 * len s)) s []) (fun s1 =>
    match peek s1 with
    | (None, s2) => PFatal s2
    | (Some TkEOF, s2) => POk s2
    | (Some _, s2) => PErr PErrSyntax s2
    end).
Proof. unfold p_config. destruct (p_settings ov (S (4 * len s)) s []); reflexivity. Qed.

(* ------------------------------------------------------------------------------------ *)
(* an answer that is not PStuck does not change with more fuel *)
Section Fuel.
  Variable ov : bool.

  Lemma bind_fuel first firstA k kA :
    (not_stuck first -> firstA = first) ->
    (forall s2, first = POk s2 -> not_stuck (k s2) -> kA s2 = k s2) ->
    not_stuck (bind first k) -> bind firstA kA = bind first k.
  Proof.
    intros H1 H2 H. assert (H0 : not_stuck first) by (destruct first; try exact I; exact H).
    rewrite (H1 H0). destruct first; cbn [bind]; try reflexivity. apply H2; [reflexivity | exact H].
  Qed.

  Lemma string_fuel : forall f f' s acc, (f <= f')%nat -> fst (p_string f s acc) <> None -> p_string f' s acc = p_string f s acc.
  Proof.
    induction f as [|f IH]; intros f' s acc Hle H; [exfalso; apply H; reflexivity|].
    destruct f' as [|f']; [lia|]. cbn [p_string] in *. destruct (peek s) as [o s1]. destruct o as [t|]; [|reflexivity].
    destruct t; try reflexivity. apply IH; [lia | exact H].
  Qed.

  Definition F_value (f : nat) : Prop := forall f' s parent cur simple, (f <= f')%nat ->
    not_stuck (p_value ov f s parent cur simple) -> p_value ov f' s parent cur simple = p_value ov f s parent cur simple.
  Definition F_agg (f : nat) : Prop := forall f' s parent cur k, (f <= f')%nat ->
    not_stuck (p_agg ov f s parent cur k) -> p_agg ov f' s parent cur k = p_agg ov f s parent cur k.
  Definition F_elems (f : nat) : Prop := forall f' s parent simple first, (f <= f')%nat ->
    not_stuck (p_elems ov f s parent simple first) -> p_elems ov f' s parent simple first = p_elems ov f s parent simple first.
  Definition F_settings (f : nat) : Prop := forall f' s parent, (f <= f')%nat ->
    not_stuck (p_settings ov f s parent) -> p_settings ov f' s parent = p_settings ov f s parent.

  Theorem parser_fuel : forall f, F_value f /\ F_agg f /\ F_elems f /\ F_settings f.
  Proof.
    induction f as [|f (IHv & IHa & IHe & IHs)].
    { unfold F_value, F_agg, F_elems, F_settings. repeat split; intros * _ H; contradiction H. }
    assert (Hv : F_value (S f)).
    { intros f' s parent cur simple Hle H. destruct f' as [|f']; [lia|]. assert (Hle' : (f <= f')%nat) by lia.
      rewrite !p_value_S. rewrite p_value_S in H. destruct (peek s) as [o s1]. destruct o as [t|]; [|reflexivity].
      destruct t as [bv|iv|lv|hv|hlv|fb|str|nm|pt| | ]; try reflexivity.
      - destruct (p_string f s1 []) as [[v|] s2] eqn:Ps; [|contradiction H].
        rewrite (string_fuel f f' s1 [] Hle') by (rewrite Ps; discriminate). rewrite Ps. reflexivity.
      - destruct pt; try reflexivity; destruct simple; try reflexivity; apply IHa; assumption. }
    assert (Ha : F_agg (S f)).
    { intros f' s parent cur k Hle H. destruct f' as [|f']; [lia|]. assert (Hle' : (f <= f')%nat) by lia.
      rewrite !p_agg_B. rewrite p_agg_B in H. destruct (act_open ov s parent cur k) as [[s1 np]|]; [|reflexivity].
      apply bind_fuel; [|reflexivity|exact H].
      destruct k; cbn [abody]; [apply IHe | apply IHe | apply IHs]; exact Hle'. }
    assert (He : F_elems (S f)).
    { intros f' s parent simple first Hle H. destruct f' as [|f']; [lia|]. assert (Hle' : (f <= f')%nat) by lia.
      rewrite !p_elems_B. rewrite p_elems_B in H. destruct (peek s) as [o s1]. destruct o as [t|]; [|reflexivity].
      destruct first.
      - destruct (is_value_start simple t); [|reflexivity].
        apply bind_fuel; [apply IHv; exact Hle' | intros s2 _; apply IHe; exact Hle' | exact H].
      - destruct t as [bv|iv|lv|hv|hlv|fb|str|nm|pt| | ]; try reflexivity. destruct pt; try reflexivity.
        destruct (peek (shift s1)) as [o2 s3]. destruct o2 as [t2|]; [|reflexivity].
        destruct (is_value_start simple t2).
        + apply bind_fuel; [apply IHv; exact Hle' | intros s2 _; apply IHe; exact Hle' | exact H].
        + apply IHe; assumption. }
    assert (Hs : F_settings (S f)).
    { intros f' s parent Hle H. destruct f' as [|f']; [lia|]. assert (Hle' : (f <= f')%nat) by lia.
      rewrite !p_settings_B. rewrite p_settings_B in H. destruct (peek s) as [o s1]. destruct o as [t|]; [|reflexivity].
      destruct t as [bv|iv|lv|hv|hlv|fb|str|nm|pt| | ]; try reflexivity.
      destruct (act_name ov (shift s1) parent nm) as [[s2 sp]|]; [|reflexivity].
      apply bind_fuel; [reflexivity | | exact H]. intros s3 _ H3.
      apply bind_fuel; [apply IHv; exact Hle' | intros s4 _; apply IHs; exact Hle' | exact H3]. }
    auto.
  Qed.

  Lemma settings_fuel f f' s parent : (f <= f')%nat -> not_stuck (p_settings ov f s parent) ->
    p_settings ov f' s parent = p_settings ov f s parent.
  Proof. apply (proj2 (proj2 (proj2 (parser_fuel f)))). Qed.
End Fuel.

(* ------------------------------------------------------------------------------------ *)
(* the configuration level *)
Lemma firstn_app_len {A} (a b : list A) : firstn (length (a ++ b) - length b) (a ++ b) = a.
Proof.
  rewrite app_length. replace (length a + length b - length b)%nat with (length a) by lia.
  rewrite firstn_app, firstn_all, Nat.sub_diag. cbn [firstn]. apply app_nil_r.
Qed.

Lemma has_stop_eof ts junk : has_stop (ts ++ TkEOF :: junk).
Proof. unfold has_stop. rewrite existsb_app. cbn [existsb is_stop]. apply orb_true_r. Qed.

Section Config.
  Variable ov : bool.

  Lemma config_mono s : mres s (p_config ov s).
  Proof.
    rewrite p_config_B. pose proof (settings_len ov (S (4 * len s)) s []) as _.
    destruct (proj2 (proj2 (proj2 (parser_mono ov (S (4 * len s))))) s []) as (M1 & M2 & M3).
    destruct (p_settings ov (S (4 * len s)) s []) as [s1|e s1|s1|s1]; cbn [bind]; try (split; [exact M1 | split; [exact M2 | exact M3]]).
    cbn [st_of] in M1, M2.
    destruct (peek s1) as [o s2] eqn:P. pose proof (peek_toks _ _ _ P) as T2. pose proof (peek_linv _ _ _ P) as L2.
    assert (Hs2 : suf s s2) by (apply (suf_trans _ s1); [exact M1 | apply suf_toks; exact T2]).
    destruct o as [t|]; [|apply (mres_here s s2); auto; discriminate].
    pose proof (peek_la _ _ _ P) as La.
    destruct t; apply (mres_here s s2); auto; try discriminate; intros s3 H; injection H as <-; exact La.
  Qed.

  (* where a syntax error leaves the state: on a token that has been read, whose line and file it records *)
  Lemma syntax_error_state s s' : linv s -> p_config ov s = PErr PErrSyntax s' ->
    exists pre t rest, p_toks s = pre ++ t :: rest /\ p_toks s' = t :: rest /\ p_la s' = true /\
                       p_line s' = lt_line t /\ p_file s' = lt_file t.
  Proof.
    intros L H. destruct (config_mono s) as ((pre & M1) & M2 & M3). rewrite H in M1, M2. cbn [st_of] in M1, M2.
    pose proof (M3 s' H) as La. destruct (M2 L La) as (t & rest & E & Hl & Hf).
    exists pre, t, rest. rewrite M1, E. auto.
  Qed.

  (* locality for p_config: the fuel it takes depends on the length of the stream, so the answer on the other
     stream must be known not to be PStuck (ParseTotal gives that when the stream has a stopping token) *)
  Lemma config_local n r' s :
    (n < len (st_of (p_config ov s)))%nat -> not_stuck (p_config ov s) -> not_stuck (p_config ov (sw n r' s)) ->
    p_config ov (sw n r' s) = map_res (sw n r') (p_config ov s).
  Proof.
    intros H NS NS'. rewrite !p_config_B in *.
    set (F := S (4 * len s)) in *. set (F' := S (4 * len (sw n r' s))) in *.
    set (k := fun s1 : pst => match peek s1 with
                              | (None, s2) => PFatal s2
                              | (Some TkEOF, s2) => POk s2
                              | (Some _, s2) => PErr PErrSyntax s2 end) in *.
    assert (Hk : forall s1, len (st_of (k s1)) = len s1).
    { intros s1. unfold k. destruct (peek s1) as [o s2] eqn:P. pose proof (peek_toks _ _ _ P) as T2.
      destruct o as [t|]; [destruct t|]; cbn [st_of]; rewrite T2; reflexivity. }
    assert (HA : (n < len (st_of (p_settings ov F s [])))%nat /\ not_stuck (p_settings ov F s [])).
    { destruct (p_settings ov F s []) as [s1|e s1|s1|s1]; cbn [bind st_of] in *; try (split; [exact H | exact I]); try contradiction.
      rewrite Hk in H. split; [exact H | exact I]. }
    destruct HA as [HA1 HA2].
    pose proof (proj2 (proj2 (proj2 (parser_local ov n r' F))) s [] HA1) as EL.
    assert (NSL : not_stuck (p_settings ov F (sw n r' s) [])) by (rewrite EL; destruct (p_settings ov F s []); try exact I; contradiction).
    assert (NSR : not_stuck (p_settings ov F' (sw n r' s) [])) by (destruct (p_settings ov F' (sw n r' s) []); try exact I; contradiction).
    assert (E : p_settings ov F' (sw n r' s) [] = map_res (sw n r') (p_settings ov F s [])).
    { rewrite <- EL. rewrite <- (settings_fuel ov F (Nat.max F F') _ _ (Nat.le_max_l _ _) NSL).
      symmetry. apply (settings_fuel ov F' (Nat.max F F') _ _ (Nat.le_max_r _ _) NSR). }
    rewrite E. destruct (p_settings ov F s []) as [s1|e s1|s1|s1]; cbn [bind map_res]; try reflexivity.
    cbn [bind] in H. rewrite Hk in H. unfold k. rewrite (peek_sw n r' s1 H). destruct (peek s1) as [o s2]. cbn [fst snd].
    destruct o as [t|]; [destruct t|]; reflexivity.
  Qed.
End Config.

(* a derivable text is answered POk, or one of the two semantic errors *)
Section Derivable.
  Variable ov : bool.
  Variable root0 : setting.
  Hypothesis Hp0 : s_pl root0 = PGroup.
  Hypothesis Hk0 : s_kids root0 = [].
  Notation run lts := (p_config ov (mkP root0 lts false O 0 None)).

  Lemma derivable_answer lts ts junk :
    map lt_tok lts = ts ++ TkEOF :: junk -> Dsettings ts ->
    (exists s, run lts = POk s) \/ (exists e s, run lts = PErr e s /\ (e = PErrDup \/ e = PErrMismatch)).
  Proof.
    intros E D.
    destruct (map_eq_app_inv _ _ _ _ E) as (la & lb & -> & Ea & Eb).
    destruct (map_eq_cons_inv _ _ _ _ Eb) as (le & lj & -> & Ee & _).
    destruct cst_of_derivation as (_ & _ & _ & Hd). destruct (Hd ts D la Ea) as (ms & Hwf & Hm).
    assert (Hsp : spells ms (la ++ le :: lj)).
    { exists (lpos le), (map ltp lj). rewrite map_app. cbn [map]. rewrite Hm, (ltp_is le _ Ee). reflexivity. }
    destruct (sem_m ov ms []) eqn:Hsem.
    - left. apply (accept_iff ov root0 Hp0 Hk0). exists ms. auto.
    - right. destruct (reject_semantic ov root0 Hp0 Hk0 _ ms Hwf Hsp Hsem) as (e & ep & s' & _ & Er & _ & Hk). exists e, s'. auto.
  Qed.

  Lemma root0_ty : s_ty root0 = TGroup.
  Proof. unfold s_ty. rewrite Hp0. reflexivity. Qed.

  Lemma run_not_stuck lts : has_stop (map lt_tok lts) -> not_stuck (run lts).
  Proof.
    intros Hst. pose proof (p_config_total ov (mkP root0 lts false O 0 None) Hst root0_ty) as H.
    destruct (run lts); try exact I; contradiction.
  Qed.

  (* (1) locality: the answer is a syntax error at the same token, in the same state, whatever follows that token *)
  Theorem syntax_error_local lts s' :
    run lts = PErr PErrSyntax s' ->
    exists pre t rest,
      lts = pre ++ t :: rest /\ p_toks s' = t :: rest /\ p_la s' = true /\
      p_line s' = lt_line t /\ p_file s' = lt_file t /\
      forall rest', has_stop (map lt_tok (pre ++ t :: rest')) ->
        run (pre ++ t :: rest') = PErr PErrSyntax (retoks s' (t :: rest')).
  Proof.
    intros H. set (s0 := mkP root0 lts false O 0 None) in *.
    assert (L0 : linv s0) by (intros X; discriminate X).
    destruct (syntax_error_state ov s0 s' L0 H) as (pre & t & rest & E & E' & La & Hl & Hf). cbn [s0 p_toks] in E.
    exists pre, t, rest. repeat (split; [assumption|]). intros rest' Hst.
    assert (Hsw0 : sw (length rest) rest' s0 = mkP root0 (pre ++ t :: rest') false O 0 None).
    { unfold sw, retoks, s0. cbn [p_toks p_root p_la p_read p_line p_file]. rewrite E.
      replace (pre ++ t :: rest) with ((pre ++ [t]) ++ rest) by (rewrite <- app_assoc; reflexivity).
      rewrite firstn_app_len, <- app_assoc. reflexivity. }
    assert (Hsw' : sw (length rest) rest' s' = retoks s' (t :: rest')).
    { unfold sw. rewrite E'. cbn [length]. replace (S (length rest) - length rest)%nat with 1%nat by lia. reflexivity. }
    rewrite <- Hsw0, <- Hsw'.
    rewrite (config_local ov (length rest) rest' s0).
    - rewrite H. reflexivity.
    - rewrite H. cbn [st_of]. rewrite E'. cbn [length]. lia.
    - rewrite H. exact I.
    - rewrite Hsw0. apply run_not_stuck. exact Hst.
  Qed.

  (* (2) no derivable text begins with the tokens up to and including the offending one *)
  Theorem syntax_error_no_continuation lts s' :
    run lts = PErr PErrSyntax s' ->
    exists pre t rest,
      lts = pre ++ t :: rest /\ p_toks s' = t :: rest /\
      forall rest' ts junk, map lt_tok (pre ++ t :: rest') = ts ++ TkEOF :: junk -> ~ Dsettings ts.
  Proof.
    intros H. destruct (syntax_error_local lts s' H) as (pre & t & rest & E & E' & _ & _ & _ & Hloc).
    exists pre, t, rest. split; [exact E|]. split; [exact E'|]. intros rest' ts junk Et D.
    assert (Hst : has_stop (map lt_tok (pre ++ t :: rest'))) by (rewrite Et; apply has_stop_eof).
    pose proof (Hloc rest' Hst) as Hr.
    destruct (derivable_answer _ ts junk Et D) as [(s & Hs) | (e & s & Hs & [-> | ->])]; rewrite Hs in Hr; discriminate Hr.
  Qed.
End Derivable.

(* ------------------------------------------------------------------------------------ *)
(* a second locality: a token that has been looked at, but neither taken nor refused, may be replaced by a closing
   bracket or an end of input (with the same position): the calls that answered POk still answer POk *)
Definition inert (t : token) : bool :=
  match t with TkP TArrayEnd | TkP TListEnd | TkP TGroupEnd | TkEOF => true | _ => false end.

Lemma inert_cases t : inert t = true -> t = TkP TArrayEnd \/ t = TkP TListEnd \/ t = TkP TGroupEnd \/ t = TkEOF.
Proof. destruct t as [ | | | | | | | |pt| | ]; try discriminate; [destruct pt; try discriminate|]; auto. Qed.

Lemma inert_not_start simple t : inert t = true -> is_value_start simple t = false.
Proof. intros H. destruct (inert_cases t H) as [-> | [-> | [-> | ->]]]; destruct simple; reflexivity. Qed.

Lemma shift_len s : len (shift s) = (len s - 1)%nat.
Proof. unfold shift. cbn [p_toks]. destruct (p_toks s); cbn; lia. Qed.

Lemma value_consumes ov f s parent cur simple s2 : p_value ov f s parent cur simple = POk s2 -> (len s2 < len s)%nat.
Proof.
  intros H. destruct (parser_sound ov f) as (Sv & _). destruct (Sv _ _ _ _ _ H) as (v & E & D).
  pose proof (Dvalue_nonempty _ _ D) as Hne. apply (f_equal (@length _)) in E. unfold ptoks in E. rewrite app_length, !map_length in E.
  destruct v; [contradiction|]. cbn [length] in E. lia.
Qed.

Lemma expect_consumes s p s2 : expect s p = POk s2 -> (len s2 < len s)%nat.
Proof.
  intros H. destruct (expect_spec _ _ _ H) as (r & E1 & E2 & _). apply (f_equal (@length _)) in E1, E2.
  unfold ptoks in E1, E2. rewrite map_length in E1, E2. cbn [length] in E1. lia.
Qed.

Lemma elems_rest_len ov f sx parent simple s2 :
  match peek sx with
  | (None, s3) => PFatal s3
  | (Some t2, s3) =>
      if is_value_start simple t2 then
        bind (p_value ov f s3 parent None simple) (fun s4 => p_elems ov f s4 parent simple false)
      else p_elems ov f s3 parent simple false
  end = POk s2 -> (len s2 <= len sx)%nat.
Proof.
  destruct (peek sx) as [o2 s3] eqn:P2. pose proof (peek_toks _ _ _ P2) as T3. destruct o2 as [t2|]; [|discriminate].
  destruct (is_value_start simple t2).
  - pose proof (value_len ov f s3 parent None simple) as Hl3.
    destruct (p_value ov f s3 parent None simple) as [s4|e s4|s4|s4]; cbn [bind]; try discriminate. intros H.
    pose proof (elems_len ov f s4 parent simple false) as Hl4. rewrite H in Hl4. cbn [st_of] in *. rewrite <- T3. lia.
  - intros H. pose proof (elems_len ov f s3 parent simple false) as Hl4. rewrite H in Hl4. cbn [st_of] in *. rewrite <- T3. lia.
Qed.

Lemma settings_rest_len ov f sx parent nm s2 :
  match act_name ov sx parent nm with
  | None => PErr PErrDup sx
  | Some (s2a, sp) =>
      bind (expect s2a TEquals) (fun s3 =>
      bind (p_value ov f s3 parent (Some sp) false) (fun s4 =>
      p_settings ov f (skip_term s4) parent))
  end = POk s2 -> (len s2 < len sx)%nat.
Proof.
  destruct (act_name ov sx parent nm) as [[s2a sp]|] eqn:A; [|discriminate].
  pose proof (proj1 (act_name_toks _ _ _ _ _ _ A)) as TA.
  destruct (expect s2a TEquals) as [s3|e s3|s3|s3] eqn:X; cbn [bind]; try discriminate.
  pose proof (expect_consumes _ _ _ X) as Hx.
  destruct (p_value ov f s3 parent (Some sp) false) as [s4|e s4|s4|s4] eqn:V; cbn [bind]; try discriminate.
  pose proof (value_consumes _ _ _ _ _ _ _ V) as Hv. intros H.
  pose proof (settings_len ov f (skip_term s4) parent) as Hl. rewrite H in Hl. cbn [st_of] in Hl.
  pose proof (skip_term_len s4). rewrite <- TA. lia.
Qed.

Section Loc2.
  Variable ov : bool.
  Variable told : ltoken.
  Variable rest : list ltoken.
  Variable t' : ltoken.
  Variable r'' : list ltoken.
  Hypothesis Hin : inert (lt_tok t') = true.
  Hypothesis Hline : lt_line t' = lt_line told.
  Hypothesis Hfile : lt_file t' = lt_file told.
  Notation n := (S (length rest)).
  Notation sw2 := (sw (S (length rest)) (t' :: r'')).

  Definition tail_ok (s : pst) : Prop := skipn (len s - n) (p_toks s) = told :: rest.

  Lemma tail_ok_suf s s2 : suf s s2 -> (n <= len s2)%nat -> tail_ok s -> tail_ok s2.
  Proof.
    intros (c & E) Hn T. unfold tail_ok in *. rewrite E in T. rewrite app_length in T.
    replace (length c + len s2 - n)%nat with (length c + (len s2 - n))%nat in T by lia.
    rewrite skipn_app in T. rewrite skipn_all2 in T by lia.
    replace (length c + (len s2 - n) - length c)%nat with (len s2 - n)%nat in T by lia. exact T.
  Qed.

  Lemma tail_ok_eq s : tail_ok s -> len s = n -> p_toks s = told :: rest.
  Proof. unfold tail_ok. intros T E. rewrite E, Nat.sub_diag in T. exact T. Qed.

  Lemma tail_ok_toks s s1 : p_toks s1 = p_toks s -> tail_ok s -> tail_ok s1.
  Proof. unfold tail_ok. intros ->. auto. Qed.

  Lemma tail_ok_shift s : (n < len s)%nat -> tail_ok s -> tail_ok (shift s).
  Proof. intros H. apply tail_ok_suf; [apply suf_shift | rewrite shift_len; lia]. Qed.

  Lemma peek2 s : tail_ok s -> (n <= len s)%nat ->
    exists t1 s1, peek s = (Some t1, s1) /\ p_toks s1 = p_toks s /\
      (((n < len s)%nat /\ peek (sw2 s) = (Some t1, sw2 s1)) \/
       (len s = n /\ t1 = lt_tok told /\ peek (sw2 s) = (Some (lt_tok t'), sw2 s1))).
  Proof.
    intros T Hn. destruct (Nat.eq_dec (len s) n) as [E|NE].
    - pose proof (tail_ok_eq s T E) as Et.
      assert (Hsw : forall x, p_toks x = told :: rest -> sw2 x = retoks x (t' :: r'')).
      { intros x Ex. unfold sw. rewrite Ex. cbn [length]. rewrite Nat.sub_diag. reflexivity. }
      destruct (p_la s) eqn:La.
      + exists (lt_tok told), s. split; [unfold peek; rewrite Et, La; reflexivity|]. split; [reflexivity|]. right.
        split; [exact E|]. split; [reflexivity|]. rewrite (Hsw s Et). unfold peek. cbn [retoks p_toks p_la]. rewrite La. reflexivity.
      + eexists (lt_tok told), _. split; [unfold peek; rewrite Et, La; reflexivity|]. split; [cbn [p_toks]; rewrite Et; reflexivity|]. right.
        split; [exact E|]. split; [reflexivity|]. rewrite (Hsw s Et). rewrite Hsw by reflexivity.
        unfold peek. cbn [retoks p_toks p_la p_root p_read p_line p_file]. rewrite La, Hline, Hfile. reflexivity.
    - assert (Hgt : (n < len s)%nat) by lia. destruct (peek s) as [o s1] eqn:P. pose proof (peek_toks _ _ _ P) as T1.
      destruct o as [t1|]; [|apply peek_none_toks in P; rewrite P in Hgt; cbn in Hgt; lia].
      exists t1, s1. split; [reflexivity|]. split; [exact T1|]. left. split; [exact Hgt|].
      rewrite (peek_sw _ _ s Hgt), P. reflexivity.
  Qed.

  Lemma inert_new_settings f s1 parent :
    match lt_tok t' with
    | TkName nm =>
        match act_name ov (shift (sw2 s1)) parent nm with
        | None => PErr PErrDup (shift (sw2 s1))
        | Some (s2, sp) =>
            bind (expect s2 TEquals) (fun s3 =>
            bind (p_value ov f s3 parent (Some sp) false) (fun s4 =>
            p_settings ov f (skip_term s4) parent))
        end
    | _ => POk (sw2 s1)
    end = POk (sw2 s1).
  Proof. destruct (inert_cases _ Hin) as [E | [E | [E | E]]]; rewrite E; reflexivity. Qed.

  Lemma string2 : forall f s acc v s2, tail_ok s -> p_string f s acc = (Some v, s2) -> (n <= len s2)%nat ->
    p_string f (sw2 s) acc = (Some v, sw2 s2).
  Proof.
    induction f as [|f IH]; intros s acc v s2 T H Hn; [discriminate H|].
    pose proof (string_len (S f) s acc) as Hl. rewrite H in Hl. cbn [snd] in Hl.
    cbn [p_string] in *.
    destruct (peek2 s T ltac:(lia)) as (t1 & s1 & P & T1 & [(Hgt & Pw) | (Heq & Et & Pw)]); rewrite P in H; rewrite Pw.
    - destruct t1; try (injection H as <- <-; reflexivity).
      pose proof (string_len f (shift s1) (acc ++ s0)) as Hl2. rewrite H in Hl2. cbn [snd] in Hl2.
      rewrite shift_sw by (rewrite T1; exact Hgt). apply IH; [|exact H|exact Hn].
      apply tail_ok_shift; [rewrite T1; exact Hgt | apply (tail_ok_toks s); assumption].
    - subst t1. destruct (lt_tok told) eqn:Etk;
        try (injection H as <- <-; destruct (inert_cases _ Hin) as [E | [E | [E | E]]]; rewrite E; reflexivity).
      pose proof (string_len f (shift s1) (acc ++ s0)) as Hl2. rewrite H in Hl2. cbn [snd] in Hl2.
      rewrite shift_len, T1 in Hl2. lia.
  Qed.

  Lemma skip_term2 s4 : tail_ok s4 -> (n <= len (skip_term s4))%nat -> skip_term (sw2 s4) = sw2 (skip_term s4).
  Proof.
    intros T Hn. pose proof (skip_term_len s4) as Hl.
    destruct (peek2 s4 T ltac:(lia)) as (t1 & s1 & P & T1 & [(Hgt & Pw) | (Heq & Et & Pw)]).
    - apply skip_term_sw. exact Hgt.
    - unfold skip_term in *. rewrite P in Hn. rewrite P, Pw. subst t1.
      assert (Hno : (len (shift s1) < n)%nat) by (rewrite shift_len, T1; lia).
      destruct (lt_tok told) as [ | | | | | | | |pt| | ] eqn:Etk;
        try (destruct (inert_cases _ Hin) as [E | [E | [E | E]]]; rewrite E; reflexivity).
      destruct pt; try lia; destruct (inert_cases _ Hin) as [E | [E | [E | E]]]; rewrite E; reflexivity.
  Qed.

  Definition L2_value (f : nat) : Prop := forall s parent cur simple s2,
    tail_ok s -> p_value ov f s parent cur simple = POk s2 -> (n <= len s2)%nat ->
    p_value ov f (sw2 s) parent cur simple = POk (sw2 s2).
  Definition L2_agg (f : nat) : Prop := forall s parent cur k s2,
    tail_ok s -> p_agg ov f s parent cur k = POk s2 -> (n <= len s2)%nat ->
    p_agg ov f (sw2 s) parent cur k = POk (sw2 s2).
  Definition L2_elems (f : nat) : Prop := forall s parent simple first s2,
    tail_ok s -> p_elems ov f s parent simple first = POk s2 -> (n <= len s2)%nat ->
    p_elems ov f (sw2 s) parent simple first = POk (sw2 s2).
  Definition L2_settings (f : nat) : Prop := forall s parent s2,
    tail_ok s -> p_settings ov f s parent = POk s2 -> (n <= len s2)%nat ->
    p_settings ov f (sw2 s) parent = POk (sw2 s2).

  Theorem parser_local2 : forall f, L2_value f /\ L2_agg f /\ L2_elems f /\ L2_settings f.
  Proof.
    induction f as [|f (IHv & IHa & IHe & IHs)].
    { unfold L2_value, L2_agg, L2_elems, L2_settings. repeat split; intros * _ H; discriminate H. }
    assert (Hv : L2_value (S f)).
    { intros s parent cur simple s2 T H Hn. pose proof (value_consumes _ _ _ _ _ _ _ H) as Hc.
      assert (Hgt : (n < len s)%nat) by lia.
      rewrite p_value_S in H |- *. rewrite (peek_sw _ _ s Hgt).
      destruct (peek s) as [o s1] eqn:P. cbn [fst snd]. pose proof (peek_toks _ _ _ P) as T1.
      destruct o as [t|]; [|discriminate H].
      assert (Hn1 : (n < len s1)%nat) by (rewrite T1; exact Hgt).
      assert (Ts1 : tail_ok s1) by (apply (tail_ok_toks s); assumption).
      assert (Hsc : forall sc,
                match act_scalar (shift s1) parent cur sc with Some s3 => POk s3 | None => PErr PErrMismatch (shift s1) end = POk s2 ->
                match act_scalar (shift (sw2 s1)) parent cur sc with Some s3 => POk s3 | None => PErr PErrMismatch (shift (sw2 s1)) end = POk (sw2 s2)).
      { intros sc Hs. rewrite shift_sw by exact Hn1. rewrite act_scalar_sw. destruct (act_scalar (shift s1) parent cur sc); [|discriminate Hs].
        injection Hs as <-. reflexivity. }
      assert (Hag : forall k, p_agg ov f (shift s1) parent cur k = POk s2 -> p_agg ov f (shift (sw2 s1)) parent cur k = POk (sw2 s2)).
      { intros k Hk. rewrite shift_sw by exact Hn1. apply IHa; [apply tail_ok_shift; assumption | exact Hk | exact Hn]. }
      destruct t as [bv|iv|lv|hv|hlv|fb|str|nm|pt| | ]; try discriminate H; try (apply Hsc; exact H).
      - destruct (p_string f s1 []) as [[v|] s2a] eqn:Ps; [|discriminate H].
        destruct (act_scalar s2a parent cur (string_scalar v)) as [s3|] eqn:A; [|discriminate H]. injection H as <-.
        pose proof (proj1 (act_scalar_toks _ _ _ _ _ A)) as TA.
        rewrite (string2 f s1 [] v s2a Ts1 Ps) by (rewrite <- TA; exact Hn). rewrite act_scalar_sw, A. reflexivity.
      - destruct pt; try discriminate H; destruct simple; try discriminate H; apply Hag; exact H. }
    assert (Ha : L2_agg (S f)).
    { intros s parent cur k s2 T H Hn. rewrite p_agg_B in H |- *. rewrite act_open_sw.
      destruct (act_open ov s parent cur k) as [[s1 np]|] eqn:A; [|discriminate H].
      destruct (abody ov k f s1 np) as [s2b|e s2b|s2b|s2b] eqn:B; cbn [bind] in H; try discriminate H.
      pose proof (expect_consumes _ _ _ H) as Hx.
      assert (EB : abody ov k f (sw2 s1) np = POk (sw2 s2b)).
      { destruct (parser_local ov n (t' :: r'') f) as (_ & _ & Le & Ls).
        destruct k; cbn [abody] in *; [rewrite Le | rewrite Le | rewrite Ls]; rewrite B; cbn [map_res st_of]; try reflexivity; lia. }
      rewrite EB. cbn [bind]. rewrite expect_sw by lia. rewrite H. reflexivity. }
    assert (He : L2_elems (S f)).
    { intros s parent simple first s2 T H Hn.
      pose proof (elems_len ov (S f) s parent simple first) as Hl. rewrite H in Hl. cbn [st_of] in Hl.
      rewrite p_elems_B in H |- *.
      assert (Hval : forall sa, tail_ok sa ->
                bind (p_value ov f sa parent None simple) (fun s4 => p_elems ov f s4 parent simple false) = POk s2 ->
                bind (p_value ov f (sw2 sa) parent None simple) (fun s4 => p_elems ov f s4 parent simple false) = POk (sw2 s2)).
      { intros sa Ta Hb. destruct (p_value ov f sa parent None simple) as [s2a|e s2a|s2a|s2a] eqn:V; cbn [bind] in Hb; try discriminate Hb.
        pose proof (elems_len ov f s2a parent simple false) as Hl2. rewrite Hb in Hl2. cbn [st_of] in Hl2.
        rewrite (IHv _ _ _ _ _ Ta V) by lia. cbn [bind]. apply IHe; [|exact Hb|exact Hn].
        apply (tail_ok_suf sa); [|lia|exact Ta]. pose proof (proj1 (proj1 (parser_mono ov f) sa parent None simple)) as Hsuf.
        rewrite V in Hsuf. exact Hsuf. }
      assert (Hcontra : forall sa, len sa = n ->
                bind (p_value ov f sa parent None simple) (fun s4 => p_elems ov f s4 parent simple false) = POk s2 -> False).
      { intros sa Ea Hb. destruct (p_value ov f sa parent None simple) as [s2a|e s2a|s2a|s2a] eqn:V; cbn [bind] in Hb; try discriminate Hb.
        pose proof (elems_len ov f s2a parent simple false) as Hl2. rewrite Hb in Hl2. cbn [st_of] in Hl2.
        pose proof (value_consumes _ _ _ _ _ _ _ V). lia. }
      destruct (peek2 s T ltac:(lia)) as (t1 & s1 & P & T1 & [(Hgt & Pw) | (Heq & Et & Pw)]); rewrite P in H; rewrite Pw.
      - assert (Ts1 : tail_ok s1) by (apply (tail_ok_toks s); assumption).
        destruct first.
        + destruct (is_value_start simple t1); [apply Hval; assumption | injection H as <-; reflexivity].
        + destruct t1 as [bv|iv|lv|hv|hlv|fb|str|nm|pt| | ]; try (injection H as <-; reflexivity).
          destruct pt; try (injection H as <-; reflexivity).
          rewrite shift_sw by (rewrite T1; exact Hgt).
          assert (Tsh : tail_ok (shift s1)) by (apply tail_ok_shift; [rewrite T1; exact Hgt | exact Ts1]).
          destruct (peek2 (shift s1) Tsh ltac:(rewrite shift_len, T1; lia)) as (t2 & s3 & P2 & T3 & [(Hgt2 & Pw2) | (Heq2 & Et2 & Pw2)]);
            rewrite P2 in H; rewrite Pw2.
          * assert (Ts3 : tail_ok s3) by (apply (tail_ok_toks (shift s1)); assumption).
            destruct (is_value_start simple t2); [apply Hval; assumption | apply IHe; assumption].
          * assert (Ts3 : tail_ok s3) by (apply (tail_ok_toks (shift s1)); assumption).
            subst t2. rewrite (inert_not_start simple _ Hin).
            destruct (is_value_start simple (lt_tok told)); [exfalso; apply (Hcontra s3); [rewrite T3; exact Heq2 | exact H] | apply IHe; assumption].
      - subst t1. destruct first.
        + rewrite (inert_not_start simple _ Hin).
          destruct (is_value_start simple (lt_tok told)); [exfalso; apply (Hcontra s1); [rewrite T1; exact Heq | exact H] | injection H as <-; reflexivity].
        + destruct (lt_tok told) as [bv|iv|lv|hv|hlv|fb|str|nm|pt| | ] eqn:Etk;
            try (injection H as <-; destruct (inert_cases _ Hin) as [E | [E | [E | E]]]; rewrite E; reflexivity).
          destruct pt; try (injection H as <-; destruct (inert_cases _ Hin) as [E | [E | [E | E]]]; rewrite E; reflexivity).
          apply elems_rest_len in H. rewrite shift_len, T1 in H. lia. }
    assert (Hs : L2_settings (S f)).
    { intros s parent s2 T H Hn.
      pose proof (settings_len ov (S f) s parent) as Hl. rewrite H in Hl. cbn [st_of] in Hl.
      rewrite p_settings_B in H |- *.
      destruct (peek2 s T ltac:(lia)) as (t1 & s1 & P & T1 & [(Hgt & Pw) | (Heq & Et & Pw)]); rewrite P in H; rewrite Pw.
      - assert (Ts1 : tail_ok s1) by (apply (tail_ok_toks s); assumption).
        destruct t1 as [bv|iv|lv|hv|hlv|fb|str|nm|pt| | ]; try (injection H as <-; reflexivity).
        assert (Hn1 : (n < len s1)%nat) by (rewrite T1; exact Hgt).
        rewrite shift_sw by exact Hn1. rewrite act_name_sw.
        destruct (act_name ov (shift s1) parent nm) as [[s2a sp]|] eqn:A; [|discriminate H].
        pose proof (proj1 (act_name_toks _ _ _ _ _ _ A)) as TA.
        destruct (expect s2a TEquals) as [s3|e s3|s3|s3] eqn:X; cbn [bind] in H; try discriminate H.
        pose proof (expect_consumes _ _ _ X) as Hx.
        destruct (p_value ov f s3 parent (Some sp) false) as [s4|e s4|s4|s4] eqn:V; cbn [bind] in H; try discriminate H.
        pose proof (value_consumes _ _ _ _ _ _ _ V) as Hvc.
        pose proof (settings_len ov f (skip_term s4) parent) as Hl6. rewrite H in Hl6. cbn [st_of] in Hl6.
        pose proof (skip_term_len s4) as Hl7.
        assert (Ts2a : tail_ok s2a) by (apply (tail_ok_toks (shift s1)); [exact TA | apply tail_ok_shift; assumption]).
        assert (Ts3 : tail_ok s3).
        { apply (tail_ok_suf s2a); [|lia|exact Ts2a]. pose proof (proj1 (expect_mono s2a TEquals)) as Hsuf. rewrite X in Hsuf. exact Hsuf. }
        assert (Ts4 : tail_ok s4).
        { apply (tail_ok_suf s3); [|lia|exact Ts3]. pose proof (proj1 (proj1 (parser_mono ov f) s3 parent (Some sp) false)) as Hsuf.
          rewrite V in Hsuf. exact Hsuf. }
        rewrite expect_sw by lia. rewrite X. cbn [map_res bind].
        rewrite (IHv _ _ _ _ _ Ts3 V) by lia. cbn [bind].
        rewrite skip_term2 by (assumption || lia).
        apply IHs; [|exact H|exact Hn]. apply (tail_ok_suf s4); [apply skip_term_suf | lia | exact Ts4].
      - subst t1. destruct (lt_tok told) as [bv|iv|lv|hv|hlv|fb|str|nm|pt| | ] eqn:Etk;
          try (injection H as <-; apply inert_new_settings).
        apply settings_rest_len in H. rewrite shift_len, T1 in H. lia. }
    auto.
  Qed.
End Loc2.

(* ------------------------------------------------------------------------------------ *)
(* (3) completion: the tokens before the offending one extend to an accepted input *)
Lemma Lp s : length (ptoks s) = len s.
Proof. unfold ptoks. apply map_length. Qed.

Lemma sw_at n l s : len s = n -> sw n l s = retoks s l.
Proof. intros E. unfold sw. rewrite E, Nat.sub_diag. reflexivity. Qed.

Lemma peek_idem s t s1 : peek s = (Some t, s1) -> peek s1 = (Some t, s1).
Proof.
  unfold peek. destruct (p_toks s) as [|x r] eqn:E; [discriminate|]. destruct (p_la s) eqn:La; intros H; injection H as <- <-.
  - rewrite E, La. reflexivity.
  - reflexivity.
Qed.

Lemma peek_hd s x l : p_toks s = x :: l ->
  exists s1, peek s = (Some (lt_tok x), s1) /\ p_toks s1 = x :: l /\ p_root s1 = p_root s.
Proof.
  intros E. unfold peek. rewrite E. destruct (p_la s).
  - exists s. auto.
  - eexists. split; [reflexivity|]. cbn [p_toks p_root]. auto.
Qed.

Lemma shift_toks s x l : p_toks s = x :: l -> p_toks (shift s) = l.
Proof. intros E. unfold shift. cbn [p_toks]. rewrite E. reflexivity. Qed.

Lemma expect_err s p s2 : expect s p = PErr PErrSyntax s2 -> exists t, peek s = (Some t, s2).
Proof.
  unfold expect. destruct (peek s) as [[t|] sx]; [|discriminate]. intros H. exists t.
  destruct t; try (injection H as <-; reflexivity).
  destruct (match p, t with
            | TEquals, TEquals | TArrayEnd, TArrayEnd | TListEnd, TListEnd | TGroupEnd, TGroupEnd => true
            | _, _ => false end); [discriminate H | injection H as <-; reflexivity].
Qed.

Lemma run_expect s p x l : p_toks s = x :: l -> lt_tok x = TkP p ->
  (p = TEquals \/ p = TArrayEnd \/ p = TListEnd \/ p = TGroupEnd) ->
  exists s3, expect s p = POk s3 /\ p_toks s3 = l /\ p_root s3 = p_root s.
Proof.
  intros E Hx Hp. destruct (peek_hd s x l E) as (s1 & P & T1 & R1). unfold expect. rewrite P, Hx.
  exists (shift s1). split; [|split; [exact (shift_toks _ _ _ T1) | rewrite shift_root; exact R1]].
  destruct Hp as [-> | [-> | [-> | ->]]]; reflexivity.
Qed.

Lemma skip_term_stop s4 : has_stop (ptoks s4) -> has_stop (ptoks (skip_term s4)) /\ p_root (skip_term s4) = p_root s4.
Proof.
  intros G2. unfold skip_term. destruct (peek_stop s4 G2) as (t4 & s5 & r4 & P4 & J1 & J2 & J3 & R5). rewrite P4.
  assert (Hkeep : has_stop (ptoks s5) /\ p_root s5 = p_root s4) by (split; [rewrite J2, <- J1; exact G2 | exact R5]).
  assert (Hshift : is_stop t4 = false -> has_stop (ptoks (shift s5)) /\ p_root (shift s5) = p_root s4).
  { intros Hns. split; [|rewrite shift_root; exact R5]. rewrite J3. rewrite J1 in G2. exact (has_stop_tl _ _ G2 Hns). }
  destruct t4 as [bv|iv|lv|hv|hlv|fb|str|nm4|pt4| | ]; try exact Hkeep. destruct pt4; try exact Hkeep; apply Hshift; reflexivity.
Qed.

Section Comp.
  Variable ov : bool.

  Lemma value_fuel_ok f F s parent cur simple y : (f <= F)%nat ->
    p_value ov f s parent cur simple = POk y -> p_value ov F s parent cur simple = POk y.
  Proof. intros Hle H. rewrite (proj1 (parser_fuel ov f) F s parent cur simple Hle); [exact H | rewrite H; exact I]. Qed.
  Lemma agg_fuel_ok f F s parent cur k y : (f <= F)%nat ->
    p_agg ov f s parent cur k = POk y -> p_agg ov F s parent cur k = POk y.
  Proof. intros Hle H. rewrite (proj1 (proj2 (parser_fuel ov f)) F s parent cur k Hle); [exact H | rewrite H; exact I]. Qed.
  Lemma elems_fuel_ok f F s parent simple first y : (f <= F)%nat ->
    p_elems ov f s parent simple first = POk y -> p_elems ov F s parent simple first = POk y.
  Proof. intros Hle H. rewrite (proj1 (proj2 (proj2 (parser_fuel ov f))) F s parent simple first Hle); [exact H | rewrite H; exact I]. Qed.
  Lemma settings_fuel_ok f F s parent y : (f <= F)%nat ->
    p_settings ov f s parent = POk y -> p_settings ov F s parent = POk y.
  Proof. intros Hle H. rewrite (settings_fuel ov f F s parent Hle); [exact H | rewrite H; exact I]. Qed.
  Lemma abody_fuel_ok k f F s np y : (f <= F)%nat -> abody ov k f s np = POk y -> abody ov k F s np = POk y.
  Proof. destruct k; cbn [abody]; [apply elems_fuel_ok | apply elems_fuel_ok | apply settings_fuel_ok]. Qed.

  Lemma run_zero F s x l parent sp : p_toks s = x :: l -> lt_tok x = TkInt 0 -> in_agg (p_root s) parent = false ->
    exists s3, p_value ov (S F) s parent (Some sp) false = POk s3 /\ p_toks s3 = l.
  Proof.
    intros E Hx Hag. destruct (peek_hd s x l E) as (s1 & P & T1 & R1). rewrite p_value_S, P, Hx. cbn [scalar_of]. cbv zeta.
    unfold act_scalar. rewrite shift_root, R1, Hag. eexists. split; [reflexivity|]. cbn [set_proot p_toks]. exact (shift_toks _ _ _ T1).
  Qed.

  Lemma run_inert_settings F s x l parent : p_toks s = x :: l -> inert (lt_tok x) = true ->
    exists s3, p_settings ov (S F) s parent = POk s3 /\ p_toks s3 = x :: l.
  Proof.
    intros E Hi. destruct (peek_hd s x l E) as (s1 & P & T1 & R1). rewrite p_settings_B, P. exists s1. split; [|exact T1].
    destruct (inert_cases _ Hi) as [-> | [-> | [-> | ->]]]; reflexivity.
  Qed.

  Lemma run_inert_elems F s x l parent simple first : p_toks s = x :: l -> inert (lt_tok x) = true ->
    exists s3, p_elems ov (S F) s parent simple first = POk s3 /\ p_toks s3 = x :: l.
  Proof.
    intros E Hi. destruct (peek_hd s x l E) as (s1 & P & T1 & R1). rewrite p_elems_B, P. exists s1. split; [|exact T1].
    rewrite (inert_not_start simple _ Hi). destruct first; [reflexivity|].
    destruct (inert_cases _ Hi) as [-> | [-> | [-> | ->]]]; reflexivity.
  Qed.

  Lemma run_inert_skip s x l : p_toks s = x :: l -> inert (lt_tok x) = true -> p_toks (skip_term s) = x :: l.
  Proof.
    intros E Hi. destruct (peek_hd s x l E) as (s1 & P & T1 & R1). unfold skip_term. rewrite P.
    destruct (inert_cases _ Hi) as [-> | [-> | [-> | ->]]]; exact T1.
  Qed.

  Lemma tail_ok_intro told rest s sb : suf s sb -> p_toks sb = told :: rest -> tail_ok told rest s.
  Proof.
    intros (c & E) Eb. unfold tail_ok. rewrite E, Eb, app_length. cbn [length].
    replace (length c + S (length rest) - S (length rest))%nat with (length c + 0)%nat by lia.
    rewrite skipn_app, skipn_all2 by lia. replace (length c + 0 - length c)%nat with 0%nat by lia. reflexivity.
  Qed.

  (* the tokens the completion adds carry the position the error state records *)
  Definition mkc (s2 : pst) (tk : token) : ltoken := mkLT tk (p_line s2) (p_file s2) None [] [] [].

  Definition done_any (run : nat -> pst -> pres) (s : pst) (n : nat) (w : list ltoken) : Prop :=
    forall r, exists f' s3, run f' (sw n (w ++ r) s) = POk s3 /\ p_toks s3 = r.
  Definition done_inert (run : nat -> pst -> pres) (s : pst) (n : nat) (w : list ltoken) : Prop :=
    forall t' r, inert (lt_tok t') = true -> exists f' s3, run f' (sw n (w ++ t' :: r) s) = POk s3 /\ p_toks s3 = t' :: r.

  Definition C_value (f : nat) : Prop := forall s parent cur simple s2,
    (3 * len s + 2 <= f)%nat -> has_stop (ptoks s) -> ctx_inv (p_root s) parent cur simple -> linv s ->
    p_value ov f s parent cur simple = PErr PErrSyntax s2 ->
    ((len s2 < len s)%nat /\ exists w, done_any (fun f' x => p_value ov f' x parent cur simple) s (len s2) w) \/
    (len s2 = len s /\ forall t sx, peek s = (Some t, sx) -> is_value_start simple t = false).
  Definition C_agg (f : nat) : Prop := forall s parent cur k s2,
    (3 * len s + 4 <= f)%nat -> has_stop (ptoks s) -> ctx_inv (p_root s) parent cur false -> linv s ->
    p_agg ov f s parent cur k = PErr PErrSyntax s2 ->
    exists w, done_any (fun f' x => p_agg ov f' x parent cur k) s (len s2) w.
  Definition C_elems (f : nat) : Prop := forall s parent simple first s2,
    (3 * len s + 3 <= f)%nat -> has_stop (ptoks s) -> ctx_inv (p_root s) parent None simple -> linv s ->
    p_elems ov f s parent simple first = PErr PErrSyntax s2 ->
    (len s2 < len s)%nat /\ exists w, done_inert (fun f' x => p_elems ov f' x parent simple first) s (len s2) w.
  Definition C_settings (f : nat) : Prop := forall s parent s2,
    (3 * len s + 1 <= f)%nat -> has_stop (ptoks s) ->
    (exists P, get_at parent (p_root s) = Some P /\ s_ty P = TGroup) -> linv s ->
    p_settings ov f s parent = PErr PErrSyntax s2 ->
    (len s2 < len s)%nat /\ exists w, done_inert (fun f' x => p_settings ov f' x parent) s (len s2) w.

  Lemma peek_stop' s : has_stop (ptoks s) ->
    exists t s1 r, peek s = (Some t, s1) /\ ptoks s = t :: r /\ ptoks s1 = t :: r /\ ptoks (shift s1) = r /\ p_root s1 = p_root s /\
                   p_toks s1 = p_toks s /\ (len (shift s1) + 1 = len s)%nat.
  Proof.
    intros Hst. destruct (peek_stop s Hst) as (t & s1 & r & P & H1 & H2 & H3 & R1). exists t, s1, r.
    pose proof (peek_toks _ _ _ P) as T1. repeat (split; [assumption|]).
    rewrite shift_len, T1. rewrite <- (Lp s), H1. cbn [length]. lia.
  Qed.

  Theorem parser_completion : forall f, C_value f /\ C_agg f /\ C_elems f /\ C_settings f.
  Proof.
    induction f as [|f (IHv & IHa & IHe & IHs)].
    { unfold C_value, C_agg, C_elems, C_settings. repeat split; intros; lia. }
    destruct (parser_total ov f) as (Tv & Ta & Te & Ts).
    assert (Hv : C_value (S f)).
    { intros s parent cur simple s2 Hf Hst Hc Li H. rewrite p_value_S in H.
      destruct (peek_stop' s Hst) as (t & s1 & r & P & H1 & H2 & H3 & R1 & T1 & Hsl). rewrite P in H.
      assert (HB : PErr PErrSyntax s1 = PErr PErrSyntax s2 -> is_value_start simple t = false ->
                ((len s2 < len s)%nat /\ exists w, done_any (fun f' x => p_value ov f' x parent cur simple) s (len s2) w) \/
                (len s2 = len s /\ forall t0 sx, peek s = (Some t0, sx) -> is_value_start simple t0 = false)).
      { intros E Ev. injection E as <-. right. split; [rewrite T1; reflexivity|]. intros t0 sx P0. rewrite P in P0. injection P0 as <- _. exact Ev. }
      assert (Hag : forall k, is_stop t = false -> simple = false -> p_agg ov f (shift s1) parent cur k = PErr PErrSyntax s2 ->
                (len s2 < len s)%nat /\ exists w, forall r0, exists f' s3,
                  p_agg ov f' (shift (sw (len s2) (w ++ r0) s1)) parent cur k = POk s3 /\ p_toks s3 = r0).
      { intros k Hns -> Hk. pose proof (agg_len ov f (shift s1) parent cur k) as Hl. rewrite Hk in Hl. cbn [st_of] in Hl.
        split; [lia|].
        destruct (IHa (shift s1) parent cur k s2) as (w & Hw); [lia | rewrite H3; rewrite H1 in Hst; exact (has_stop_tl _ _ Hst Hns) | rewrite shift_root, R1; exact Hc | apply linv_shift | exact Hk|].
        exists w. intros r0. destruct (Hw r0) as (f' & s3 & E3 & T3). exists f', s3. rewrite shift_sw by (rewrite T1; lia). auto. }
      assert (Hwrap : forall k, (len s2 < len s)%nat ->
                (exists w, forall r0, exists f' s3, p_agg ov f' (shift (sw (len s2) (w ++ r0) s1)) parent cur k = POk s3 /\ p_toks s3 = r0) ->
                simple = false -> t = TkP (match k with KArr => TArrayStart | KLst => TListStart | KGrp => TGroupStart end) ->
                exists w, done_any (fun f' x => p_value ov f' x parent cur simple) s (len s2) w).
      { intros k Hlt (w & Hw) -> Et. exists w. intros r0. destruct (Hw r0) as (f' & s3 & E3 & T3). exists (S f'), s3. split; [|exact T3].
        rewrite p_value_S. rewrite peek_sw by exact Hlt. rewrite P. cbn [fst snd]. rewrite Et. destruct k; exact E3. }
      destruct t as [bv|iv|lv|hv|hlv|fb|str|nm|pt| | ];
        try (cbn [scalar_of] in H; cbv zeta in H; destruct (act_scalar (shift s1) parent cur _); discriminate H);
        try (apply HB; [exact H | destruct simple; reflexivity]).
      - destruct (p_string f s1 []) as [[v|] s2a]; [|discriminate H]. destruct (act_scalar s2a parent cur (string_scalar v)); discriminate H.
      - destruct pt; try (apply HB; [exact H | destruct simple; reflexivity]); destruct simple eqn:Esim;
          try (apply HB; [exact H | reflexivity]); left.
        + destruct (Hag KGrp eq_refl eq_refl H) as [Hlt Hw]. split; [exact Hlt|]. exact (Hwrap KGrp Hlt Hw eq_refl eq_refl).
        + destruct (Hag KArr eq_refl eq_refl H) as [Hlt Hw]. split; [exact Hlt|]. exact (Hwrap KArr Hlt Hw eq_refl eq_refl).
        + destruct (Hag KLst eq_refl eq_refl H) as [Hlt Hw]. split; [exact Hlt|]. exact (Hwrap KLst Hlt Hw eq_refl eq_refl). }
    assert (Ha : C_agg (S f)).
    { intros s parent cur k s2 Hf Hst Hc Li H. rewrite p_agg_B in H.
      destruct (act_open_total ov s parent cur k Hc) as (s1 & np & Q & A & Ht1 & Hk1 & (x & Hnp) & GQ & HQ). rewrite A in H.
      destruct (act_open_toks _ _ _ _ _ _ _ A) as (TA & LA). pose proof (linv_same s s1 (conj TA LA) Li) as Li1.
      assert (Hst1 : has_stop (ptoks s1)) by (rewrite Ht1; exact Hst).
      assert (Hclose : close_of k = TEquals \/ close_of k = TArrayEnd \/ close_of k = TListEnd \/ close_of k = TGroupEnd) by (destruct k; cbn; auto).
      destruct (abody ov k f s1 np) as [s2b|e s2b|s2b|s2b] eqn:B; cbn [bind] in H; try discriminate H.
      - (* the body is fine, the closing bracket is missing *)
        destruct (expect_err _ _ _ H) as (tx & Px). pose proof (peek_toks _ _ _ Px) as T2. pose proof (peek_la _ _ _ Px) as La2.
        assert (MB : mres s1 (abody ov k f s1 np)) by (destruct k; cbn [abody]; apply parser_mono).
        rewrite B in MB. destruct MB as (Sb & Lb & _). cbn [st_of] in Sb, Lb.
        destruct (peek_linv _ _ _ Px (Lb Li1) La2) as (told & rest & E2 & Hl2 & Hf2).
        exists [mkc s2 (TkP (close_of k))]. intros r0.
        assert (En : len s2 = S (length rest)) by (rewrite E2; reflexivity).
        assert (EB : abody ov k f (sw (len s2) ([mkc s2 (TkP (close_of k))] ++ r0) s1) np =
                     POk (sw (len s2) ([mkc s2 (TkP (close_of k))] ++ r0) s2b)).
        { rewrite En. cbn [app].
          destruct (parser_local2 ov told rest (mkc s2 (TkP (close_of k))) r0) with (f := f) as (_ & _ & Le & Ls);
            [destruct k; reflexivity | exact Hl2 | exact Hf2|].
          assert (Tk : tail_ok told rest s1) by (apply (tail_ok_intro told rest s1 s2b Sb); rewrite <- T2; exact E2).
          assert (Hn2 : (S (length rest) <= len s2b)%nat) by (rewrite <- T2, E2; cbn [length]; lia).
          destruct k; cbn [abody] in *; [apply Le | apply Le | apply Ls]; assumption. }
        rewrite (sw_at (len s2) _ s2b) in EB by (rewrite <- T2; reflexivity). cbn [app] in EB.
        destruct (run_expect (retoks s2b (mkc s2 (TkP (close_of k)) :: r0)) (close_of k) _ r0 eq_refl eq_refl Hclose) as (s3 & E3 & T3 & _).
        exists (S f), s3. split; [|exact T3]. cbn [app]. rewrite p_agg_B, act_open_sw, A, EB. cbn [bind]. exact E3.
      - (* the error is inside the body *)
        injection H as -> ->.
        assert (HBd : (len s2 <= len s1)%nat /\ exists w, forall t' r0, inert (lt_tok t') = true -> exists f' s3,
                   abody ov k f' (sw (len s2) (w ++ t' :: r0) s1) np = POk s3 /\ p_toks s3 = t' :: r0).
        { rewrite <- Lp in Hf. rewrite <- Ht1, Lp in Hf.
          destruct k; cbn [abody] in B |- *.
          - destruct (IHe s1 np true true s2) as (Hlt & w & Hw); [lia | exact Hst1 | | exact Li1 | exact B | split; [lia | exists w; exact Hw]].
            exists Q. split; [exact GQ|]. right. split; [|reflexivity]. unfold s_ty. rewrite HQ. reflexivity.
          - destruct (IHe s1 np false true s2) as (Hlt & w & Hw); [lia | exact Hst1 | | exact Li1 | exact B | split; [lia | exists w; exact Hw]].
            exists Q. split; [exact GQ|]. left. unfold s_ty. rewrite HQ. reflexivity.
          - destruct (IHs s1 np s2) as (Hlt & w & Hw); [lia | exact Hst1 | | exact Li1 | exact B | split; [lia | exists w; exact Hw]].
            exists Q. split; [exact GQ|]. unfold s_ty. rewrite HQ. reflexivity. }
        destruct HBd as (Hle & w & Hw). exists (w ++ [mkc s2 (TkP (close_of k))]). intros r0.
        destruct (Hw (mkc s2 (TkP (close_of k))) r0 ltac:(destruct k; reflexivity)) as (f' & s3 & E3 & T3).
        destruct (run_expect s3 (close_of k) _ r0 T3 eq_refl Hclose) as (s4 & E4 & T4 & _).
        exists (S f'), s4. split; [|exact T4]. rewrite p_agg_B, act_open_sw, A. rewrite <- app_assoc. cbn [app]. rewrite E3. cbn [bind]. exact E4. }
    assert (He : C_elems (S f)).
    { intros s parent simple first s2 Hf Hst Hc Li H. rewrite p_elems_B in H.
      destruct (peek_stop' s Hst) as (t & s1 & r & P & H1 & H2 & H3 & R1 & T1 & Hsl). rewrite P in H.
      pose proof (peek_linv _ _ _ P Li) as Li1.
      assert (Hst1 : has_stop (ptoks s1)) by (rewrite H2, <- H1; exact Hst).
      assert (Hval : forall sa t0, p_root sa = p_root s -> has_stop (ptoks sa) -> (3 * len sa + 3 <= S f)%nat -> linv sa ->
                peek sa = (Some t0, sa) -> is_value_start simple t0 = true ->
                bind (p_value ov f sa parent None simple) (fun s4 => p_elems ov f s4 parent simple false) = PErr PErrSyntax s2 ->
                (len s2 < len sa)%nat /\ exists w, forall t' r0, inert (lt_tok t') = true -> exists f' s3,
                  bind (p_value ov f' (sw (len s2) (w ++ t' :: r0) sa) parent None simple)
                       (fun s4 => p_elems ov f' s4 parent simple false) = POk s3 /\ p_toks s3 = t' :: r0).
      { intros sa t0 Ra Hsa Hfa Lia Pa Ev Hb.
        assert (Hca : ctx_inv (p_root sa) parent None simple) by (rewrite Ra; exact Hc).
        pose proof (Tv sa parent None simple ltac:(rewrite Lp; lia) Hsa Hca) as G.
        destruct (p_value ov f sa parent None simple) as [s2a|e s2a|s2a|s2a] eqn:V; cbn [bind] in Hb; try discriminate Hb.
        - destruct G as [G1 G2]. pose proof (value_consumes _ _ _ _ _ _ _ V) as Hvc.
          destruct (proj1 (parser_mono ov f) sa parent None simple) as (_ & Lv & _). rewrite V in Lv. cbn [st_of] in Lv.
          destruct (IHe s2a parent simple false s2) as (Hlt & w & Hw);
            [lia | exact G2 | apply (ctx_inv_skel (p_root sa)); assumption | auto | exact Hb|].
          split; [lia|]. exists w. intros t' r0 Hi. destruct (Hw t' r0 Hi) as (f' & s3 & E3 & T3).
          exists (Nat.max f f'), s3. split; [|exact T3].
          assert (EV : p_value ov f (sw (len s2) (w ++ t' :: r0) sa) parent None simple = POk (sw (len s2) (w ++ t' :: r0) s2a)).
          { rewrite (proj1 (parser_local ov (len s2) (w ++ t' :: r0) f)); rewrite V; cbn [map_res st_of]; [reflexivity | lia]. }
          rewrite (value_fuel_ok f _ _ _ _ _ _ (Nat.le_max_l f f') EV). cbn [bind].
          exact (elems_fuel_ok f' _ _ _ _ _ _ (Nat.le_max_r f f') E3).
        - injection Hb as -> ->.
          destruct (IHv sa parent None simple s2) as [(Hlt & w & Hw) | (_ & Hns)]; [lia | exact Hsa | exact Hca | exact Lia | exact V | |].
          + split; [exact Hlt|]. exists w. intros t' r0 Hi. destruct (Hw (t' :: r0)) as (f' & s3 & E3 & T3).
            destruct (run_inert_elems f' s3 t' r0 parent simple false T3 Hi) as (s4 & E4 & T4).
            exists (S f'), s4. split; [|exact T4]. rewrite (value_fuel_ok f' (S f') _ _ _ _ _ ltac:(lia) E3). cbn [bind]. exact E4.
          + rewrite (Hns t0 sa Pa) in Ev. discriminate Ev. }
      destruct first.
      - destruct (is_value_start simple t) eqn:Ev; [|discriminate H].
        destruct (Hval s1 t R1 Hst1 ltac:(rewrite T1; exact Hf) Li1 (peek_idem _ _ _ P) Ev H) as (Hlt & w & Hw).
        split; [rewrite <- T1; exact Hlt|]. exists w. intros t' r0 Hi. destruct (Hw t' r0 Hi) as (f' & s3 & E3 & T3).
        exists (S f'), s3. split; [|exact T3]. rewrite p_elems_B. rewrite peek_sw by (rewrite <- T1; exact Hlt).
        rewrite P. cbn [fst snd]. rewrite Ev. exact E3.
      - destruct t as [bv|iv|lv|hv|hlv|fb|str|nm|pt| | ]; try discriminate H. destruct pt; try discriminate H.
        assert (Hst2 : has_stop (ptoks (shift s1))) by (rewrite H3; rewrite H1 in Hst; apply (has_stop_tl _ _ Hst); reflexivity).
        destruct (peek_stop' (shift s1) Hst2) as (t2 & s3 & r2 & P2 & K1 & K2 & K3 & R3 & T3 & Hsl2). rewrite P2 in H.
        assert (R3' : p_root s3 = p_root s) by (rewrite R3, shift_root; exact R1).
        assert (Hst3 : has_stop (ptoks s3)) by (rewrite K2, <- K1; exact Hst2).
        assert (Li3 : linv s3) by (apply (peek_linv _ _ _ P2); apply linv_shift).
        assert (Hl3 : (len s3 + 1 = len s)%nat) by (rewrite T3; exact Hsl).
        assert (Hwrap : forall w, (len s2 < len s3)%nat ->
                  (forall t' r0, inert (lt_tok t') = true -> exists f' s4,
                     (if is_value_start simple t2
                      then bind (p_value ov f' (sw (len s2) (w ++ t' :: r0) s3) parent None simple)
                                (fun s4 => p_elems ov f' s4 parent simple false)
                      else p_elems ov f' (sw (len s2) (w ++ t' :: r0) s3) parent simple false) = POk s4 /\ p_toks s4 = t' :: r0) ->
                  done_inert (fun f' x => p_elems ov f' x parent simple false) s (len s2) w).
        { intros w Hlt Hw t' r0 Hi. destruct (Hw t' r0 Hi) as (f' & s4 & E4 & T4). exists (S f'), s4. split; [|exact T4].
          rewrite p_elems_B. rewrite peek_sw by lia. rewrite P. cbn [fst snd]. rewrite shift_sw by (rewrite T1; lia).
          rewrite peek_sw by (rewrite <- T3; exact Hlt). rewrite P2. cbn [fst snd]. exact E4. }
        destruct (is_value_start simple t2) eqn:Ev2.
        + destruct (Hval s3 t2 R3' Hst3 ltac:(lia) Li3 (peek_idem _ _ _ P2) Ev2 H) as (Hlt & w & Hw).
          split; [lia|]. exists w. apply Hwrap; [exact Hlt | exact Hw].
        + destruct (IHe s3 parent simple false s2) as (Hlt & w & Hw); [lia | exact Hst3 | rewrite R3'; exact Hc | exact Li3 | exact H|].
          split; [lia|]. exists w. apply Hwrap; [exact Hlt | exact Hw]. }
    assert (Hs : C_settings (S f)).
    { intros s parent s2 Hf Hst (P0 & G0 & Hty0) Li H. rewrite p_settings_B in H.
      destruct (peek_stop' s Hst) as (t & s1 & r & P & H1 & H2 & H3 & R1 & T1 & Hsl). rewrite P in H.
      destruct t as [bv|iv|lv|hv|hlv|fb|str|nm|pt| | ]; try discriminate H.
      assert (Hst2 : has_stop (ptoks (shift s1))) by (rewrite H3; rewrite H1 in Hst; apply (has_stop_tl _ _ Hst); reflexivity).
      destruct (act_name ov (shift s1) parent nm) as [[s2a sp]|] eqn:A; [|discriminate H].
      destruct (act_name_total ov (shift s1) parent nm s2a sp P0 ltac:(rewrite shift_root, R1; exact G0) Hty0 A) as (T2 & K2 & C2).
      rewrite shift_root, R1 in K2.
      destruct (act_name_toks _ _ _ _ _ _ A) as (TA & LA).
      assert (Li2 : linv s2a) by (apply (linv_same (shift s1)); [exact (conj TA LA) | apply linv_shift]).
      assert (Hst2a : has_stop (ptoks s2a)) by (rewrite T2; exact Hst2).
      assert (Hl2a : (len s2a + 1 = len s)%nat) by (rewrite TA; exact Hsl).
      assert (Hag : in_agg (p_root s2a) parent = false).
      { destruct C2 as (P2 & G2 & Hty2 & _). unfold in_agg, ty_at. rewrite G2, Hty2. reflexivity. }
      assert (Hpre : forall l F, (len s2 < len s)%nat ->
                p_settings ov (S F) (sw (len s2) l s) parent =
                bind (expect (sw (len s2) l s2a) TEquals) (fun s3 =>
                bind (p_value ov F s3 parent (Some sp) false) (fun s4 => p_settings ov F (skip_term s4) parent))).
      { intros l F Hlt. rewrite p_settings_B. rewrite peek_sw by exact Hlt. rewrite P. cbn [fst snd].
        rewrite shift_sw by (rewrite T1; exact Hlt). rewrite act_name_sw, A. reflexivity. }
      destruct (expect s2a TEquals) as [s3|e s3|s3|s3] eqn:X; cbn [bind] in H; try discriminate H.
      - pose proof (expect_total s2a TEquals Hst2a) as Hx. rewrite X in Hx. destruct Hx as (R3 & Hst3 & _).
        pose proof (expect_consumes _ _ _ X) as Hxc.
        destruct (expect_mono s2a TEquals) as (_ & Lx & _). rewrite X in Lx. cbn [st_of] in Lx. pose proof (Lx Li2) as Li3.
        assert (Hc3 : ctx_inv (p_root s3) parent (Some sp) false) by (rewrite R3; exact C2).
        pose proof (Tv s3 parent (Some sp) false ltac:(rewrite Lp; lia) Hst3 Hc3) as G.
        destruct (p_value ov f s3 parent (Some sp) false) as [s4|e s4|s4|s4] eqn:V; cbn [bind] in H; try discriminate H.
        + (* the error is in a later setting *)
          destruct G as [G1 G2]. rewrite R3 in G1. pose proof (value_consumes _ _ _ _ _ _ _ V) as Hvc.
          destruct (proj1 (parser_mono ov f) s3 parent (Some sp) false) as (_ & Lv & _). rewrite V in Lv. cbn [st_of] in Lv.
          destruct (skip_term_stop s4 G2) as (Hs6 & R6). pose proof (skip_term_len s4) as Hl6.
          assert (Kall : tyskel parent (p_root s) (p_root s4)) by (apply (tyskel_trans parent _ (p_root s2a)); assumption).
          destruct (tyskel_get _ _ _ _ Kall G0) as (P4 & G4 & E4).
          destruct (IHs (skip_term s4) parent s2) as (Hlt & w & Hw);
            [lia | exact Hs6 | exists P4; rewrite R6; split; [exact G4 | rewrite E4; exact Hty0] | apply skip_term_suf; auto | exact H|].
          split; [lia|]. exists w. intros t' r0 Hi. destruct (Hw t' r0 Hi) as (f' & s5 & E5 & T5).
          exists (S (Nat.max f f')), s5. split; [|exact T5]. rewrite Hpre by lia. rewrite expect_sw by lia. rewrite X. cbn [map_res bind].
          assert (EV : p_value ov f (sw (len s2) (w ++ t' :: r0) s3) parent (Some sp) false = POk (sw (len s2) (w ++ t' :: r0) s4)).
          { rewrite (proj1 (parser_local ov (len s2) (w ++ t' :: r0) f)); rewrite V; cbn [map_res st_of]; [reflexivity | lia]. }
          rewrite (value_fuel_ok f _ _ _ _ _ _ (Nat.le_max_l f f') EV). cbn [bind]. rewrite skip_term_sw by lia.
          exact (settings_fuel_ok f' _ _ _ _ (Nat.le_max_r f f') E5).
        + (* the error is in the value *)
          injection H as -> ->.
          destruct (IHv s3 parent (Some sp) false s2) as [(Hlt & w & Hw) | (Heq & _)]; [lia | exact Hst3 | exact Hc3 | exact Li3 | exact V | |].
          * split; [lia|]. exists w. intros t' r0 Hi. destruct (Hw (t' :: r0)) as (f' & s5 & E5 & T5).
            pose proof (run_inert_skip s5 t' r0 T5 Hi) as T6.
            destruct (run_inert_settings f' (skip_term s5) t' r0 parent T6 Hi) as (s7 & E7 & T7).
            exists (S (S f')), s7. split; [|exact T7]. rewrite Hpre by lia. rewrite expect_sw by lia. rewrite X. cbn [map_res bind].
            rewrite (value_fuel_ok f' (S f') _ _ _ _ _ ltac:(lia) E5). cbn [bind]. exact E7.
          * split; [lia|]. exists [mkc s2 (TkInt 0)]. intros t' r0 Hi. cbn [app].
            assert (Hag3 : in_agg (p_root (retoks s3 (mkc s2 (TkInt 0) :: t' :: r0))) parent = false) by (cbn [retoks p_root]; rewrite R3; exact Hag).
            destruct (run_zero 0 (retoks s3 (mkc s2 (TkInt 0) :: t' :: r0)) _ (t' :: r0) parent sp eq_refl eq_refl Hag3) as (s5 & E5 & T5).
            pose proof (run_inert_skip s5 t' r0 T5 Hi) as T6.
            destruct (run_inert_settings 0 (skip_term s5) t' r0 parent T6 Hi) as (s7 & E7 & T7).
            exists 2%nat, s7. split; [|exact T7]. rewrite Hpre by lia. rewrite expect_sw by lia. rewrite X. cbn [map_res bind].
            rewrite (sw_at (len s2) _ s3 (eq_sym Heq)). rewrite E5. cbn [bind]. exact E7.
      - (* the '=' is missing *)
        injection H as -> ->. destruct (expect_err _ _ _ X) as (tx & Px). pose proof (peek_toks _ _ _ Px) as Tx.
        assert (Heq : len s2a = len s2) by (rewrite Tx; reflexivity).
        split; [lia|]. exists [mkc s2 (TkP TEquals); mkc s2 (TkInt 0)]. intros t' r0 Hi. cbn [app].
        destruct (run_expect (retoks s2a (mkc s2 (TkP TEquals) :: mkc s2 (TkInt 0) :: t' :: r0)) TEquals _ _ eq_refl eq_refl (or_introl eq_refl))
          as (s3' & E3 & T3 & R3').
        assert (Hag3 : in_agg (p_root s3') parent = false) by (rewrite R3'; cbn [retoks p_root]; exact Hag).
        destruct (run_zero 0 s3' _ (t' :: r0) parent sp T3 eq_refl Hag3) as (s5 & E5 & T5).
        pose proof (run_inert_skip s5 t' r0 T5 Hi) as T6.
        destruct (run_inert_settings 0 (skip_term s5) t' r0 parent T6 Hi) as (s7 & E7 & T7).
        exists 2%nat, s7. split; [|exact T7]. rewrite Hpre by lia. rewrite (sw_at (len s2) _ s2a Heq). rewrite E3. cbn [bind].
        rewrite E5. cbn [bind]. exact E7. }
    auto.
  Qed.
End Comp.

(* ------------------------------------------------------------------------------------ *)
(* the three parts for p_config *)
Section FirstOffence.
  Variable ov : bool.
  Variable root0 : setting.
  Hypothesis Hp0 : s_pl root0 = PGroup.
  Hypothesis Hk0 : s_kids root0 = [].
  Notation run lts := (p_config ov (mkP root0 lts false O 0 None)).

  Lemma has_stop_end l s : has_stop (map lt_tok (l ++ [mkc s TkEOF])).
  Proof. rewrite map_app. cbn [map mkc lt_tok]. apply has_stop_eof. Qed.

  (* p_config from a successful p_settings (at any fuel) that stops in front of the end of input *)
  Lemma config_finish f x y z :
    p_settings ov f x [] = POk y -> has_stop (ptoks x) -> s_ty (p_root x) = TGroup -> peek y = (Some TkEOF, z) ->
    p_config ov x = POk z.
  Proof.
    intros E Hst Hty Pz. pose proof (p_config_total ov x Hst Hty) as Ht. rewrite p_config_B in Ht |- *.
    set (F := S (4 * len x)) in *.
    assert (NS : not_stuck (p_settings ov F x [])) by (destruct (p_settings ov F x []); try exact I; contradiction).
    assert (EF : p_settings ov F x [] = POk y).
    { rewrite <- (settings_fuel ov F (Nat.max F f) x [] (Nat.le_max_l _ _) NS).
      apply (settings_fuel_ok ov f (Nat.max F f) x [] y (Nat.le_max_r _ _) E). }
    rewrite EF. cbn [bind]. rewrite Pz. reflexivity.
  Qed.

  Lemma sw_start lts pre t rest l :
    lts = pre ++ t :: rest ->
    sw (S (length rest)) l (mkP root0 lts false O 0 None) = mkP root0 (pre ++ l) false O 0 None.
  Proof.
    intros ->. unfold sw, retoks. cbn [p_toks p_root p_la p_read p_line p_file].
    change (S (length rest)) with (length (t :: rest)). rewrite firstn_app_len. reflexivity.
  Qed.

  (* (3) when the stream has its stopping token *)
  Lemma viable_stop lts s' :
    has_stop (map lt_tok lts) -> run lts = PErr PErrSyntax s' ->
    exists pre t rest, lts = pre ++ t :: rest /\ p_toks s' = t :: rest /\
                       exists suffix s3, run (pre ++ suffix) = POk s3.
  Proof.
    intros Hst H. set (s0 := mkP root0 lts false O 0 None) in *.
    assert (L0 : linv s0) by (intros X; discriminate X).
    destruct (syntax_error_state ov s0 s' L0 H) as (pre & t & rest & E & E' & La & Hl & Hf). cbn [s0 p_toks] in E.
    exists pre, t, rest. split; [exact E|]. split; [exact E'|].
    assert (En : len s' = S (length rest)) by (rewrite E'; reflexivity).
    assert (Hfin : forall suffix y, suffix = firstn (length suffix - 1) suffix ++ [mkc s' TkEOF] ->
              (exists f, p_settings ov f (mkP root0 (pre ++ suffix) false O 0 None) [] = POk y) -> p_toks y = [mkc s' TkEOF] ->
              exists s3, run (pre ++ suffix) = POk s3).
    { intros suffix y Es (f & Ef) Ty. destruct (peek_hd y _ _ Ty) as (z & Pz & _). exists z.
      apply (config_finish f _ y z Ef); [|exact (root0_ty root0 Hp0) | exact Pz].
      unfold ptoks. cbn [p_toks]. rewrite Es, app_assoc. apply has_stop_end. }
    rewrite p_config_B in H. set (F0 := S (4 * len s0)) in *.
    destruct (p_settings ov F0 s0 []) as [s1|e s1|s1|s1] eqn:B; cbn [bind] in H; try discriminate H.
    - (* the settings are fine, but something other than the end of input follows *)
      destruct (peek s1) as [[tx|] sx] eqn:Px; [|discriminate H].
      assert (Esx : sx = s') by (destruct tx; try discriminate H; injection H as <-; reflexivity). subst sx.
      pose proof (peek_toks _ _ _ Px) as T1.
      destruct (proj2 (proj2 (proj2 (parser_mono ov F0))) s0 []) as (Sb & _). rewrite B in Sb. cbn [st_of] in Sb.
      destruct (parser_local2 ov t rest (mkc s' TkEOF) [] eq_refl Hl Hf F0) as (_ & _ & _ & Ls).
      assert (EB : p_settings ov F0 (sw (S (length rest)) [mkc s' TkEOF] s0) [] = POk (sw (S (length rest)) [mkc s' TkEOF] s1)).
      { apply Ls; [apply (tail_ok_intro t rest s0 s1 Sb); rewrite <- T1; exact E' | exact B | rewrite <- T1, E'; cbn [length]; lia]. }
      rewrite (sw_start lts pre t rest _ E) in EB. rewrite (sw_at (S (length rest)) _ s1) in EB by (rewrite <- T1, E'; reflexivity).
      exists [mkc s' TkEOF]. apply (Hfin _ (retoks s1 [mkc s' TkEOF])); [reflexivity | exists F0; exact EB | reflexivity].
    - (* the error is inside the settings *)
      injection H as -> ->.
      destruct (proj2 (proj2 (proj2 (parser_completion ov F0))) s0 [] s') as (Hlt & w & Hw);
        [unfold F0; lia | exact Hst | exists root0; split; [reflexivity | exact (root0_ty root0 Hp0)] | exact L0 | exact B|].
      destruct (Hw (mkc s' TkEOF) [] eq_refl) as (f' & s3 & E3 & T3).
      rewrite En, (sw_start lts pre t rest _ E) in E3.
      exists (w ++ [mkc s' TkEOF]). apply (Hfin _ s3); [|exists f'; exact E3 | exact T3].
      rewrite app_length. cbn [length]. replace (length w + 1 - 1)%nat with (length w) by lia.
      rewrite firstn_app, firstn_all, Nat.sub_diag. cbn [firstn]. rewrite app_nil_r. reflexivity.
  Qed.

  (* a syntax error is reported at the first token that cannot continue a derivation *)
  Theorem syntax_error_first_offence lts s' :
    run lts = PErr PErrSyntax s' ->
    exists pre t rest,
      lts = pre ++ t :: rest /\ p_toks s' = t :: rest /\ p_la s' = true /\
      p_line s' = lt_line t /\ p_file s' = lt_file t /\
      (* (1) locality: whatever follows the offending token, the same error in the same state *)
      (forall rest', has_stop (map lt_tok (pre ++ t :: rest')) ->
         run (pre ++ t :: rest') = PErr PErrSyntax (retoks s' (t :: rest'))) /\
      (* (2) no derivable text begins with the tokens up to and including the offending one *)
      (forall rest' ts junk, map lt_tok (pre ++ t :: rest') = ts ++ TkEOF :: junk -> ~ Dsettings ts) /\
      (* (3) the tokens before the offending one extend to an accepted input *)
      (exists suffix s3, run (pre ++ suffix) = POk s3).
  Proof.
    intros H. destruct (syntax_error_local ov root0 Hp0 lts s' H) as (pre & t & rest & E & E' & La & Hl & Hf & Hloc).
    exists pre, t, rest. repeat (split; [assumption|]). split.
    - intros rest' ts junk Et D.
      assert (Hst : has_stop (map lt_tok (pre ++ t :: rest'))) by (rewrite Et; apply has_stop_eof).
      pose proof (Hloc rest' Hst) as Hr.
      destruct (derivable_answer ov root0 Hp0 Hk0 _ ts junk Et D) as [(s & Hs) | (e & s & Hs & [-> | ->])]; rewrite Hs in Hr; discriminate Hr.
    - assert (Hst : has_stop (map lt_tok (pre ++ t :: [mkc s' TkEOF]))).
      { replace (pre ++ t :: [mkc s' TkEOF]) with ((pre ++ [t]) ++ [mkc s' TkEOF]) by (rewrite <- app_assoc; reflexivity). apply has_stop_end. }
      pose proof (Hloc _ Hst) as Hr.
      destruct (viable_stop _ _ Hst Hr) as (pre2 & t2 & rest2 & E2 & E2' & Hv).
      cbn [retoks p_toks] in E2'. rewrite E2' in E2. apply app_inv_tail in E2. subst pre2. exact Hv.
  Qed.

  (* hence every token before the offending one is viable as well: the offending token is the first one with
     the defect (2) *)
  Corollary syntax_error_earlier_viable lts s' :
    run lts = PErr PErrSyntax s' ->
    exists pre t rest, lts = pre ++ t :: rest /\ p_toks s' = t :: rest /\
      forall pre1 pre2, pre = pre1 ++ pre2 -> exists suffix s3, run (pre1 ++ suffix) = POk s3.
  Proof.
    intros H. destruct (syntax_error_first_offence lts s' H) as (pre & t & rest & E & E' & _ & _ & _ & _ & _ & (suffix & s3 & Hv)).
    exists pre, t, rest. split; [exact E|]. split; [exact E'|]. intros pre1 pre2 ->. exists (pre2 ++ suffix), s3. rewrite app_assoc. exact Hv.
  Qed.
End FirstOffence.

(* ------------------------------------------------------------------------------------ *)
(* non-vacuity:  a = ( 1 , } ) ;  -- the '}' in the middle of the input is the offending token *)
Definition ex_lt (line : Z) (tk : token) : ltoken := mkLT tk line None None [] [] [].
Definition ex_pre : list ltoken :=
  [ex_lt 1 (TkName [97%Z]); ex_lt 1 (TkP TEquals); ex_lt 1 (TkP TListStart); ex_lt 2 (TkInt 1); ex_lt 2 (TkP TComma)].
Definition ex_bad : ltoken := ex_lt 3 (TkP TGroupEnd).
Definition ex_rest : list ltoken := [ex_lt 3 (TkP TListEnd); ex_lt 3 (TkP TSemicolon); ex_lt 4 TkEOF].
Definition ex_lts : list ltoken := ex_pre ++ ex_bad :: ex_rest.

Example ex_has_stop : has_stop (map lt_tok ex_lts).
Proof. reflexivity. Qed.

Example ex_syntax_error :
  exists s', p_config false (mkP new_root ex_lts false O 0%Z None) = PErr PErrSyntax s' /\
             p_toks s' = ex_bad :: ex_rest /\ p_la s' = true /\ p_line s' = 3%Z.
Proof. eexists. split; [vm_compute; reflexivity|]. vm_compute. auto. Qed.

(* the completion the proof constructs here is  ) EOF  *)
Example ex_viable :
  exists s3, p_config false (mkP new_root (ex_pre ++ [ex_lt 3 (TkP TListEnd); ex_lt 3 TkEOF]) false O 0%Z None) = POk s3.
Proof. eexists. vm_compute. reflexivity. Qed.

(* the theorem applied to the example *)
Example ex_first_offence :
  exists pre t rest s',
    p_config false (mkP new_root ex_lts false O 0%Z None) = PErr PErrSyntax s' /\
    ex_lts = pre ++ t :: rest /\ p_toks s' = t :: rest /\ t = ex_bad /\
    (forall rest' ts junk, map lt_tok (pre ++ t :: rest') = ts ++ TkEOF :: junk -> ~ Dsettings ts) /\
    (exists suffix s3, p_config false (mkP new_root (pre ++ suffix) false O 0%Z None) = POk s3).
Proof.
  destruct ex_syntax_error as (s' & H & T & _).
  destruct (syntax_error_first_offence false new_root eq_refl eq_refl ex_lts s' H) as (pre & t & rest & E & E' & _ & _ & _ & _ & H2 & H3).
  exists pre, t, rest, s'. split; [exact H|]. split; [exact E|]. split; [exact E'|]. split; [|split; assumption].
  rewrite T in E'. injection E' as <- _. reflexivity.
Qed.

Print Assumptions syntax_error_local.
Print Assumptions syntax_error_no_continuation.
Print Assumptions viable_stop.
Print Assumptions syntax_error_first_offence.
Print Assumptions syntax_error_earlier_viable.
Print Assumptions ex_first_offence.
