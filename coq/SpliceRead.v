(* SpliceRead.v — C10, continued: the splice theorem lifted through the parser to config_read.

   A. Position irrelevance of the parser: the parser reads the token values (lt_tok) for the structure and the
      values of the tree; the lines and file names of the tokens only go into the recorded positions
      (s_line/s_file of the settings) and into p_line/p_file.  [unpos] erases the recorded positions of a tree;
      two token lists with the same values, parsed from states that are equal up to positions, give results
      with the same constructor, the same error kind, and roots equal up to positions.
      Corollary: reading a text with an @include of a plain file and reading the text with the file spliced in
      give the same outcome and the same configuration up to the recorded positions. *)
From Coq Require Import List ZArith NArith Bool Lia.
Import ListNotations.
From LC Require Import Base Tree Fp Lookup Api ApiStep ScanAction FlexEngine Bisim ScannerCert Tokens Lexer Parser Reader
  GrammarFacts ParseWrite LexTotal Splice.
From LC.gen Require Import Consts ScannerTables.
Local Open Scope Z_scope.

(* ================================================================================================================ *)
(* A.1 Trees up to positions                                                                                         *)
(* ================================================================================================================ *)
Fixpoint unpos (s : setting) : setting :=
  match s with Setting n p k f h _ _ => Setting n p (map unpos k) f h 0 None end.

Lemma unpos_fields s : unpos s = Setting (s_name s) (s_pl s) (map unpos (s_kids s)) (s_fmt s) (s_hook s) 0 None.
Proof. destruct s; reflexivity. Qed.

Lemma E_inv a b : unpos a = unpos b ->
  s_name a = s_name b /\ s_pl a = s_pl b /\ map unpos (s_kids a) = map unpos (s_kids b) /\ s_fmt a = s_fmt b /\ s_hook a = s_hook b.
Proof. rewrite !unpos_fields. intros H. injection H as H1 H2 H3 H4 H5. auto. Qed.

Lemma E_intro a b : s_name a = s_name b -> s_pl a = s_pl b -> map unpos (s_kids a) = map unpos (s_kids b) ->
  s_fmt a = s_fmt b -> s_hook a = s_hook b -> unpos a = unpos b.
Proof. rewrite !unpos_fields. intros -> -> -> -> ->. reflexivity. Qed.

Lemma E_ty a b : unpos a = unpos b -> s_ty a = s_ty b.
Proof. intros H. unfold s_ty. destruct (E_inv _ _ H) as (_ & -> & _). reflexivity. Qed.

Lemma E_set_pl a b p : unpos a = unpos b -> unpos (set_pl a p) = unpos (set_pl b p).
Proof. intros H. destruct (E_inv _ _ H) as (H1 & H2 & H3 & H4 & H5). destruct a, b; cbn in *. congruence. Qed.
Lemma E_set_kids a b k1 k2 : unpos a = unpos b -> map unpos k1 = map unpos k2 -> unpos (set_kids a k1) = unpos (set_kids b k2).
Proof. intros H K. destruct (E_inv _ _ H) as (H1 & H2 & H3 & H4 & H5). destruct a, b; cbn in *. congruence. Qed.
Lemma E_set_fmt a b f : unpos a = unpos b -> unpos (set_fmt a f) = unpos (set_fmt b f).
Proof. intros H. destruct (E_inv _ _ H) as (H1 & H2 & H3 & H4 & H5). destruct a, b; cbn in *. congruence. Qed.
Lemma unpos_set_pos a l f : unpos (set_pos a l f) = unpos a.
Proof. destruct a; reflexivity. Qed.

(* ---- lists of children ---- *)
Definition opt_E (x y : option setting) : Prop :=
  match x, y with Some a, Some b => unpos a = unpos b | None, None => True | _, _ => False end.

Lemma ME_nth k1 k2 i : map unpos k1 = map unpos k2 -> opt_E (nth_error k1 i) (nth_error k2 i).
Proof.
  intros H. pose proof (nth_error_map unpos i k1) as H1. pose proof (nth_error_map unpos i k2) as H2. rewrite H in H1. rewrite H1 in H2.
  unfold opt_E. destruct (nth_error k1 i), (nth_error k2 i); cbn in H2; try discriminate H2; [injection H2 as ->; reflexivity | exact I].
Qed.
Lemma ME_length k1 k2 : map unpos k1 = map unpos k2 -> length k1 = length k2.
Proof. intros H. rewrite <- (map_length unpos k1), H. apply map_length. Qed.
Lemma ME_list_upd i : forall k1 k2 g1 g2, map unpos k1 = map unpos k2 ->
  (forall x y, unpos x = unpos y -> unpos (g1 x) = unpos (g2 y)) -> map unpos (list_upd i g1 k1) = map unpos (list_upd i g2 k2).
Proof.
  induction i as [|i IH]; intros [|x k1] [|y k2] g1 g2 H Hg; cbn in *; try discriminate H; try reflexivity;
    injection H as Hx Hk; f_equal; auto.
Qed.
Lemma ME_list_del i : forall k1 k2, map unpos k1 = map unpos k2 -> map unpos (list_del i k1) = map unpos (list_del i k2).
Proof.
  induction i as [|i IH]; intros [|x k1] [|y k2] H; cbn in *; try discriminate H; try reflexivity;
    injection H as Hx Hk; [exact Hk | f_equal; auto].
Qed.
Lemma ME_search nm : forall k1 k2, map unpos k1 = map unpos k2 -> list_search k1 nm = list_search k2 nm.
Proof.
  unfold list_search. induction k1 as [|x k1 IH]; intros [|y k2] H; cbn in *; try discriminate H; [reflexivity|].
  injection H as Hx Hk. unfold name_is at 1 3. destruct (E_inv _ _ Hx) as (-> & _). destruct (s_name y) as [n|].
  - destruct (bytes_eqb n nm); [reflexivity|]. rewrite (IH _ Hk). reflexivity.
  - rewrite (IH _ Hk). reflexivity.
Qed.

Lemma get_at_E p : forall a b, unpos a = unpos b -> opt_E (get_at p a) (get_at p b).
Proof.
  induction p as [|i q IH]; intros a b H; cbn [get_at]; [exact H|].
  destruct (E_inv _ _ H) as (_ & _ & Hk & _). pose proof (ME_nth _ _ i Hk) as Hn.
  destruct (nth_error (s_kids a) i), (nth_error (s_kids b) i); cbn in Hn; try contradiction; [apply IH; exact Hn | exact I].
Qed.

Lemma upd_at_E p : forall a b f1 f2, unpos a = unpos b -> (forall x y, unpos x = unpos y -> unpos (f1 x) = unpos (f2 y)) ->
  unpos (upd_at p f1 a) = unpos (upd_at p f2 b).
Proof.
  induction p as [|i q IH]; intros a b f1 f2 H Hf; cbn [upd_at]; [apply Hf; exact H|].
  destruct (E_inv _ _ H) as (_ & _ & Hk & _). apply E_set_kids; [exact H|]. apply ME_list_upd; [exact Hk|].
  intros x y Hxy. apply IH; assumption.
Qed.

(* ================================================================================================================ *)
(* A.2 The API functions the parser calls respect equality up to positions                                           *)
(* ================================================================================================================ *)
Definition sres_E (r1 r2 : sres) : Prop :=
  match r1, r2 with SOk a, SOk b => unpos a = unpos b | SFail, SFail | SUnspec, SUnspec => True | _, _ => False end.
Definition setter_ok (st : setting -> sres) : Prop := forall a b, unpos a = unpos b -> sres_E (st a) (st b).

Ltac pl_cases a b H :=
  let H2 := fresh in destruct (E_inv a b H) as (_ & H2 & _); rewrite H2; destruct (s_pl b); cbn [sres_E]; try exact I; try (apply E_set_pl; exact H).

Lemma n_set_int_ok auto v : setter_ok (fun s => n_set_int auto s v).
Proof. intros a b H. unfold n_set_int. pl_cases a b H. destruct auto; cbn [sres_E]; [apply E_set_pl; exact H | exact I]. Qed.
Lemma n_set_int64_ok auto v : setter_ok (fun s => n_set_int64 auto s v).
Proof.
  intros a b H. unfold n_set_int64. pl_cases a b H.
  - destruct (in_int v); cbn [sres_E]; [apply E_set_pl; exact H | exact I].
  - destruct auto; cbn [sres_E]; [apply E_set_pl; exact H | exact I].
Qed.
Lemma n_set_float_ok auto v : setter_ok (fun s => n_set_float auto s v).
Proof.
  intros a b H. unfold n_set_float. pl_cases a b H.
  - destruct auto; [destruct (cast_double_int v)|]; cbn [sres_E]; try exact I. apply E_set_pl; exact H.
  - destruct auto; [destruct (cast_double_int64 v)|]; cbn [sres_E]; try exact I. apply E_set_pl; exact H.
Qed.
Lemma n_set_bool_ok v : setter_ok (fun s => n_set_bool s v).
Proof. intros a b H. unfold n_set_bool. pl_cases a b H. Qed.
Lemma n_set_string_ok v : setter_ok (fun s => n_set_string s v).
Proof. intros a b H. unfold n_set_string. pl_cases a b H. Qed.

Lemma scalar_of_ok t ty st fmt : scalar_of t = Some (ty, st, fmt) -> setter_ok st.
Proof.
  destruct t; cbn [scalar_of]; intros E; try discriminate E; injection E as _ <- _;
    [apply n_set_bool_ok | apply n_set_int_ok | apply n_set_int64_ok | apply n_set_int_ok | apply n_set_int64_ok | apply n_set_float_ok].
Qed.

Lemma n_set_format_E a b f : unpos a = unpos b -> sres_E (n_set_format a f) (n_set_format b f).
Proof.
  intros H. unfold n_set_format. destruct (E_inv a b H) as (_ & H2 & _). rewrite H2.
  destruct (s_pl b); cbn [sres_E]; try exact I; destruct ((f =? 0) || (f =? 1)); cbn [sres_E]; try exact I; apply E_set_fmt; exact H.
Qed.
Lemma apply_fmt_E f a b : unpos a = unpos b -> unpos (apply_fmt f a) = unpos (apply_fmt f b).
Proof.
  intros H. unfold apply_fmt. destruct f as [x|]; [|exact H]. pose proof (n_set_format_E a b x H) as Hs.
  destruct (n_set_format a x), (n_set_format b x); cbn [sres_E] in Hs; try contradiction; assumption.
Qed.

Lemma checktype_E a b t : unpos a = unpos b -> checktype a t = checktype b t.
Proof.
  intros H. unfold checktype. rewrite (E_ty a b H). destruct (E_inv a b H) as (_ & _ & Hk & _).
  destruct (s_kids a) as [|x ka], (s_kids b) as [|y kb]; cbn in Hk; try discriminate Hk; [reflexivity|].
  injection Hk as Hx _. rewrite (E_ty x y Hx). reflexivity.
Qed.

Lemma n_create_E a b n t : unpos a = unpos b -> opt_E (n_create a n t) (n_create b n t).
Proof.
  intros H. unfold n_create. rewrite (E_ty a b H). destruct (ty_is_aggregate (s_ty b)); cbn [opt_E]; [|exact I].
  destruct (E_inv a b H) as (_ & _ & Hk & _). apply E_set_kids; [exact H|]. rewrite !map_app, Hk. reflexivity.
Qed.

Lemma get_elem_E a b idx : unpos a = unpos b -> get_elem a idx = get_elem b idx.
Proof.
  intros H. unfold get_elem. rewrite (E_ty a b H). destruct (E_inv a b H) as (_ & _ & Hk & _). rewrite (ME_length _ _ Hk). reflexivity.
Qed.

Lemma walk_E fuel : forall a b rel p, unpos a = unpos b -> walk fuel a rel p = walk fuel b rel p.
Proof.
  induction fuel as [|fuel IH]; intros a b rel p H; cbn [walk]; [reflexivity|].
  destruct p as [|c r]; [reflexivity|]. destruct (E_inv a b H) as (_ & _ & Hk & _).
  set (p1 := if is_sep c then tl (c :: r) else c :: r). destruct (strip_byte 91 p1) as [p2|].
  - destruct (strtol10 p2) as [index q]. destruct (strip_byte 93 q) as [p3|]; [|reflexivity].
    rewrite (get_elem_E a b index H).
    destruct (if (index <? 0) || (4294967295 <? index) then None else get_elem b index) as [i|]; [|reflexivity].
    pose proof (ME_nth _ _ i Hk) as Hn. destruct (nth_error (s_kids a) i), (nth_error (s_kids b) i); cbn in Hn; try contradiction; [|reflexivity].
    apply IH. exact Hn.
  - rewrite (E_ty a b H). destruct (s_ty b); try reflexivity.
    destruct (span (fun c0 => negb (is_sep c0)) p1) as [nm q]. rewrite (ME_search nm _ _ Hk).
    destruct (list_search (s_kids b) nm) as [i|]; [|reflexivity].
    pose proof (ME_nth _ _ i Hk) as Hn. destruct (nth_error (s_kids a) i), (nth_error (s_kids b) i); cbn in Hn; try contradiction; [|reflexivity].
    apply IH. exact Hn.
Qed.

Lemma get_member_E a b nm : unpos a = unpos b -> get_member a nm = get_member b nm.
Proof.
  intros H. unfold get_member. rewrite (E_ty a b H). destruct (E_inv a b H) as (_ & _ & Hk & _).
  destruct (s_ty b); try reflexivity. destruct nm; [apply ME_search; exact Hk | reflexivity].
Qed.

Definition opt2_E (x y : option (setting * setting)) : Prop :=
  match x, y with
  | Some (a1, a2), Some (b1, b2) => unpos a1 = unpos b1 /\ unpos a2 = unpos b2
  | None, None => True
  | _, _ => False
  end.

Lemma n_remove_E a b path : unpos a = unpos b -> opt2_E (n_remove a path) (n_remove b path).
Proof.
  intros H. unfold n_remove. rewrite (E_ty a b H). destruct (s_ty b); cbn [opt2_E]; try exact I.
  unfold lookup. rewrite (walk_E _ a b [] path H). destruct (walk (S (length path)) b [] path) as [rel|]; [|exact I].
  pose proof (get_at_E (removelast rel) a b H) as Hg.
  destruct (get_at (removelast rel) a) as [ha|], (get_at (removelast rel) b) as [hb|]; cbn in Hg; try contradiction; [|exact I].
  destruct (E_inv ha hb Hg) as (_ & _ & Hk & _). rewrite (ME_search _ _ _ Hk).
  destruct (list_search (s_kids hb) (last_component [] path)) as [idx|]; [|exact I].
  pose proof (ME_nth _ _ idx Hk) as Hn. destruct (nth_error (s_kids ha) idx), (nth_error (s_kids hb) idx); cbn in Hn; try contradiction; [|exact I].
  cbn [opt2_E]. split; [|exact Hn]. apply upd_at_E; [exact H|]. intros x y Hxy. destruct (E_inv x y Hxy) as (_ & _ & Hk' & _).
  apply E_set_kids; [exact Hxy | apply ME_list_del; exact Hk'].
Qed.

Definition add_E (x y : option (setting * nat * option setting)) : Prop :=
  match x, y with
  | Some (a, i, _), Some (b, j, _) => unpos a = unpos b /\ i = j
  | None, None => True
  | _, _ => False
  end.

Lemma n_add_E ov a b name tcode : unpos a = unpos b -> add_E (n_add ov a name tcode) (n_add ov b name tcode).
Proof.
  intros H. unfold n_add. destruct (ty_of_code tcode) as [t|]; [|exact I]. cbv zeta.
  rewrite (E_ty a b H), (checktype_E a b t H). destruct (E_inv a b H) as (_ & _ & Hk & _).
  destruct (ty_eqb (s_ty b) TArray && negb (ty_is_scalar t)); [exact I|].
  destruct (ty_eqb (s_ty b) TArray && negb (checktype b t)); [exact I|].
  set (name' := if ty_eqb (s_ty b) TArray || ty_eqb (s_ty b) TList then None else name).
  destruct (negb match name' with Some n => validate_name n | None => true end); [exact I|].
  rewrite (get_member_E a b name' H).
  assert (Hc : forall x y, unpos x = unpos y -> add_E match n_create x name' t with Some p2 => Some (p2, length (s_kids x), None) | None => None end
                                                     match n_create y name' t with Some p2 => Some (p2, length (s_kids y), None) | None => None end).
  { intros x y Hxy. pose proof (n_create_E x y name' t Hxy) as Hn. destruct (E_inv x y Hxy) as (_ & _ & Hk' & _).
    destruct (n_create x name' t), (n_create y name' t); cbn in Hn; try contradiction; cbn [add_E]; [|exact I].
    split; [exact Hn | apply ME_length; exact Hk']. }
  destruct (get_member b name') as [m|]; [|apply Hc; exact H].
  destruct ov; [|exact I]. destruct name' as [n|]; [|exact I].
  pose proof (n_remove_E a b n H) as Hr.
  destruct (n_remove a n) as [[pa va]|], (n_remove b n) as [[pb vb]|]; cbn in Hr; try contradiction; [|apply Hc; exact H].
  destruct Hr as [Hp Hv]. pose proof (n_create_E pa pb (Some n) t Hp) as Hn. destruct (E_inv pa pb Hp) as (_ & _ & Hk' & _).
  destruct (n_create pa (Some n) t), (n_create pb (Some n) t); cbn in Hn; try contradiction; cbn [add_E]; [|exact I].
  split; [exact Hn | apply ME_length; exact Hk'].
Qed.

Definition eres_E (x y : eres) : Prop :=
  match x, y with
  | EOk a i, EOk b j => unpos a = unpos b /\ i = j
  | EFail, EFail | EUnspec, EUnspec => True
  | _, _ => False
  end.

(* appending an element (the only form the parser uses: index -1) *)
Lemma n_set_elem_E t st a b idx : idx < 0 -> unpos a = unpos b -> eres_E (n_set_elem t st a idx) (n_set_elem t st b idx).
Proof.
  intros Hi H. unfold n_set_elem. rewrite (E_ty a b H), (checktype_E a b t H). destruct (E_inv a b H) as (_ & _ & Hk & _).
  replace (idx <? 0) with true by (symmetry; apply Z.ltb_lt; exact Hi).
  assert (Hg : eres_E (if checktype b t then match st (new_setting None t) with
                         | SOk e => EOk (set_kids a (s_kids a ++ [e])) (length (s_kids a)) | SFail => EFail | SUnspec => EUnspec end else EFail)
                      (if checktype b t then match st (new_setting None t) with
                         | SOk e => EOk (set_kids b (s_kids b ++ [e])) (length (s_kids b)) | SFail => EFail | SUnspec => EUnspec end else EFail)).
  { destruct (checktype b t); [|exact I]. destruct (st (new_setting None t)) as [|e|]; cbn [eres_E]; try exact I.
    split; [|apply ME_length; exact Hk]. apply E_set_kids; [exact H|]. rewrite !map_app, Hk. reflexivity. }
  destruct (s_ty b); try exact I; exact Hg.
Qed.

(* ================================================================================================================ *)
(* A.3 Position irrelevance of the parser                                                                            *)
(* ================================================================================================================ *)
(* parser states that differ only in recorded positions, in the lines/files of the pending tokens, and in p_line/p_file *)
Definition psim (s1 s2 : pst) : Prop :=
  unpos (p_root s1) = unpos (p_root s2) /\ map lt_tok (p_toks s1) = map lt_tok (p_toks s2) /\
  p_la s1 = p_la s2 /\ p_read s1 = p_read s2.

(* same constructor, same error kind, final states equal up to positions *)
Definition pres_sim (r1 r2 : pres) : Prop :=
  match r1, r2 with
  | POk a, POk b | PFatal a, PFatal b | PStuck a, PStuck b => psim a b
  | PErr e1 a, PErr e2 b => e1 = e2 /\ psim a b
  | _, _ => False
  end.

Lemma peek_sim s1 s2 : psim s1 s2 -> fst (peek s1) = fst (peek s2) /\ psim (snd (peek s1)) (snd (peek s2)).
Proof.
  intros (Hr & Ht & Hl & Hn). unfold peek.
  destruct (p_toks s1) as [|t1 r1] eqn:E1, (p_toks s2) as [|t2 r2] eqn:E2; cbn [map] in Ht; try discriminate Ht.
  - cbn [fst snd]. split; [reflexivity|]. unfold psim. rewrite E1, E2. auto.
  - injection Ht as Ht1 Ht2. rewrite <- Hl. destruct (p_la s1) eqn:El; cbn [fst snd].
    + split; [rewrite Ht1; reflexivity|]. unfold psim. rewrite ?E1, ?E2, ?El. cbn [map]. rewrite ?Ht1, ?Ht2. auto.
    + split; [rewrite Ht1; reflexivity|]. unfold psim. cbn [p_root p_toks p_la p_read]. rewrite ?E1, ?E2. cbn [map]. rewrite ?Ht1, ?Ht2, ?Hn. auto.
Qed.

Lemma shift_sim s1 s2 : psim s1 s2 -> psim (shift s1) (shift s2).
Proof.
  intros (Hr & Ht & Hl & Hn). unfold psim, shift. cbn [p_root p_toks p_la p_read]. split; [exact Hr|]. split; [|auto].
  destruct (p_toks s1), (p_toks s2); cbn in *; try discriminate Ht; [reflexivity | injection Ht as _ Ht; exact Ht].
Qed.

Lemma set_proot_sim s1 s2 r1 r2 : psim s1 s2 -> unpos r1 = unpos r2 -> psim (set_proot s1 r1) (set_proot s2 r2).
Proof. intros (Hr & Ht & Hl & Hn) H. unfold psim, set_proot. cbn [p_root p_toks p_la p_read]. auto. Qed.

Lemma ty_at_E r1 r2 p : unpos r1 = unpos r2 -> ty_at r1 p = ty_at r2 p.
Proof.
  intros H. unfold ty_at. pose proof (get_at_E p r1 r2 H) as Hg.
  destruct (get_at p r1), (get_at p r2); cbn in Hg; try contradiction; [apply E_ty; exact Hg | reflexivity].
Qed.

Definition optp_sim (x y : option (pst * ipath)) : Prop :=
  match x, y with Some (a, p), Some (b, q) => psim a b /\ p = q | None, None => True | _, _ => False end.
Definition opts_sim (x y : option pst) : Prop :=
  match x, y with Some a, Some b => psim a b | None, None => True | _, _ => False end.

Lemma expect_sim s1 s2 p : psim s1 s2 -> pres_sim (expect s1 p) (expect s2 p).
Proof.
  intros H. unfold expect. destruct (peek_sim s1 s2 H) as [Hf Hs].
  destruct (peek s1) as [o1 s1'], (peek s2) as [o2 s2']. cbn [fst snd] in *. subst o2.
  destruct o1 as [t|]; [|exact Hs]. destruct t; cbn [pres_sim]; auto.
  match goal with |- pres_sim (if ?c then _ else _) _ => destruct c end; cbn [pres_sim]; auto. apply shift_sim. exact Hs.
Qed.

Section ParseSim.
  Variable ov : bool.

  Lemma act_name_sim s1 s2 parent nm : psim s1 s2 -> optp_sim (act_name ov s1 parent nm) (act_name ov s2 parent nm).
  Proof.
    intros H. pose proof H as (Hr & _). unfold act_name. pose proof (get_at_E parent _ _ Hr) as Hg.
    destruct (get_at parent (p_root s1)) as [ps1|], (get_at parent (p_root s2)) as [ps2|]; cbn in Hg; try contradiction; [|exact I].
    pose proof (n_add_E ov ps1 ps2 (Some nm) 0 Hg) as Ha.
    destruct (n_add ov ps1 (Some nm) 0) as [[[p1 i1] v1]|], (n_add ov ps2 (Some nm) 0) as [[[p2 i2] v2]|]; cbn in Ha; try contradiction; [|exact I].
    destruct Ha as [Hp <-]. cbn [optp_sim]. split; [|reflexivity]. apply set_proot_sim; [exact H|].
    apply upd_at_E; [exact Hr|]. intros _ _ _. destruct (E_inv p1 p2 Hp) as (_ & _ & Hk & _).
    apply E_set_kids; [exact Hp|]. apply ME_list_upd; [exact Hk|]. intros x y Hxy. rewrite !unpos_set_pos. exact Hxy.
  Qed.

  Lemma act_scalar_sim s1 s2 parent cur t st fmt : setter_ok st -> psim s1 s2 ->
    opts_sim (act_scalar s1 parent cur (t, st, fmt)) (act_scalar s2 parent cur (t, st, fmt)).
  Proof.
    intros Hst H. pose proof H as (Hr & _). unfold act_scalar, in_agg. rewrite (ty_at_E _ _ parent Hr).
    assert (Hagg : opts_sim
      match get_at parent (p_root s1) with
      | None => None
      | Some agg => match n_set_elem t st agg (-1) with
                    | EOk agg' i => Some (set_proot s1 (upd_at parent (fun _ => set_kids agg' (list_upd i (fun e => set_pos (apply_fmt fmt e) (p_line s1) (p_file s1)) (s_kids agg'))) (p_root s1)))
                    | _ => None end
      end
      match get_at parent (p_root s2) with
      | None => None
      | Some agg => match n_set_elem t st agg (-1) with
                    | EOk agg' i => Some (set_proot s2 (upd_at parent (fun _ => set_kids agg' (list_upd i (fun e => set_pos (apply_fmt fmt e) (p_line s2) (p_file s2)) (s_kids agg'))) (p_root s2)))
                    | _ => None end
      end).
    { pose proof (get_at_E parent _ _ Hr) as Hg.
      destruct (get_at parent (p_root s1)) as [a1|], (get_at parent (p_root s2)) as [a2|]; cbn in Hg; try contradiction; [|exact I].
      pose proof (n_set_elem_E t st a1 a2 (-1) ltac:(lia) Hg) as He.
      destruct (n_set_elem t st a1 (-1)) as [|g1 i1|], (n_set_elem t st a2 (-1)) as [|g2 i2|]; cbn in He; try contradiction; try exact I.
      destruct He as [Hp <-]. cbn [opts_sim]. apply set_proot_sim; [exact H|]. apply upd_at_E; [exact Hr|]. intros _ _ _.
      destruct (E_inv g1 g2 Hp) as (_ & _ & Hk & _). apply E_set_kids; [exact Hp|]. apply ME_list_upd; [exact Hk|].
      intros x y Hxy. rewrite !unpos_set_pos. apply apply_fmt_E. exact Hxy. }
    destruct (ty_at (p_root s2) parent); try exact Hagg.
    all: destruct cur as [sp|]; cbn [opts_sim]; [|exact H]; apply set_proot_sim; [exact H|]; apply upd_at_E; [exact Hr|];
      intros x y Hxy; pose proof (Hst x y Hxy) as Hs; destruct (st x), (st y); cbn in Hs; try contradiction; apply apply_fmt_E; assumption.
  Qed.

  Lemma act_open_sim s1 s2 parent cur k : psim s1 s2 -> optp_sim (act_open ov s1 parent cur k) (act_open ov s2 parent cur k).
  Proof.
    intros H. pose proof H as (Hr & _). unfold act_open. rewrite (ty_at_E _ _ parent Hr).
    assert (Hcur : optp_sim match cur with None => None | Some sp => Some (set_proot s1 (upd_at sp (fun x => set_pl x (aggk_pl k)) (p_root s1)), sp) end
                            match cur with None => None | Some sp => Some (set_proot s2 (upd_at sp (fun x => set_pl x (aggk_pl k)) (p_root s2)), sp) end).
    { destruct cur as [sp|]; [|exact I]. cbn [optp_sim]. split; [|reflexivity]. apply set_proot_sim; [exact H|].
      apply upd_at_E; [exact Hr|]. intros x y Hxy. apply E_set_pl. exact Hxy. }
    destruct (ty_at (p_root s2) parent); try exact Hcur.
    pose proof (get_at_E parent _ _ Hr) as Hg.
    destruct (get_at parent (p_root s1)) as [ps1|], (get_at parent (p_root s2)) as [ps2|]; cbn in Hg; try contradiction; [|exact I].
    pose proof (n_add_E ov ps1 ps2 None (aggk_code k) Hg) as Ha.
    destruct (n_add ov ps1 None (aggk_code k)) as [[[p1 i1] v1]|], (n_add ov ps2 None (aggk_code k)) as [[[p2 i2] v2]|]; cbn in Ha; try contradiction; [|exact I].
    destruct Ha as [Hp <-]. cbn [optp_sim]. split; [|reflexivity]. apply set_proot_sim; [exact H|].
    apply upd_at_E; [exact Hr|]. intros _ _ _. destruct (E_inv p1 p2 Hp) as (_ & _ & Hk & _).
    apply E_set_kids; [exact Hp|]. apply ME_list_upd; [exact Hk|]. intros x y Hxy. rewrite !unpos_set_pos. exact Hxy.
  Qed.

  Lemma p_string_sim : forall fuel s1 s2 acc, psim s1 s2 ->
    fst (p_string fuel s1 acc) = fst (p_string fuel s2 acc) /\ psim (snd (p_string fuel s1 acc)) (snd (p_string fuel s2 acc)).
  Proof.
    induction fuel as [|f IH]; intros s1 s2 acc H; cbn [p_string]; [cbn [fst snd]; auto|].
    destruct (peek_sim s1 s2 H) as [Hf Hs]. destruct (peek s1) as [o1 s1'], (peek s2) as [o2 s2']. cbn [fst snd] in Hf, Hs. subst o2.
    destruct o1 as [t|]; [|cbn [fst snd]; auto]. destruct t; try (cbn [fst snd]; auto; fail).
    apply IH. apply shift_sim. exact Hs.
  Qed.

  Definition S_value (f : nat) : Prop := forall s1 s2 parent cur simple, psim s1 s2 ->
    pres_sim (p_value ov f s1 parent cur simple) (p_value ov f s2 parent cur simple).
  Definition S_agg (f : nat) : Prop := forall s1 s2 parent cur k, psim s1 s2 ->
    pres_sim (p_agg ov f s1 parent cur k) (p_agg ov f s2 parent cur k).
  Definition S_elems (f : nat) : Prop := forall s1 s2 parent simple first, psim s1 s2 ->
    pres_sim (p_elems ov f s1 parent simple first) (p_elems ov f s2 parent simple first).
  Definition S_settings (f : nat) : Prop := forall s1 s2 parent, psim s1 s2 ->
    pres_sim (p_settings ov f s1 parent) (p_settings ov f s2 parent).

  Lemma scalar_branch s1 s2 t parent cur : psim s1 s2 ->
    pres_sim (match scalar_of t with
              | Some sc => let s' := shift s1 in match act_scalar s' parent cur sc with Some s3 => POk s3 | None => PErr PErrMismatch s' end
              | None => PErr PErrSyntax s1 end)
             (match scalar_of t with
              | Some sc => let s' := shift s2 in match act_scalar s' parent cur sc with Some s3 => POk s3 | None => PErr PErrMismatch s' end
              | None => PErr PErrSyntax s2 end).
  Proof.
    intros H. destruct (scalar_of t) as [[[ty st] fmt]|] eqn:E; [|cbn [pres_sim]; auto]. cbv zeta.
    pose proof (act_scalar_sim (shift s1) (shift s2) parent cur ty st fmt (scalar_of_ok _ _ _ _ E) (shift_sim _ _ H)) as Ha.
    destruct (act_scalar (shift s1) parent cur (ty, st, fmt)), (act_scalar (shift s2) parent cur (ty, st, fmt)); cbn in Ha; try contradiction;
      cbn [pres_sim]; [exact Ha | split; [reflexivity | apply shift_sim; exact H]].
  Qed.

  Theorem parser_pos_irrelevant : forall f, S_value f /\ S_agg f /\ S_elems f /\ S_settings f.
  Proof.
    induction f as [|f (IHv & IHa & IHe & IHs)].
    { split; [|split; [|split]]; red; intros; cbn [p_value p_agg p_elems p_settings pres_sim]; assumption. }
    assert (Hv : S_value (S f)).
    { intros s1 s2 parent cur simple H. rewrite !p_value_S. destruct (peek_sim s1 s2 H) as [Hf Hs].
      destruct (peek s1) as [o1 s1'], (peek s2) as [o2 s2']. cbn [fst snd] in Hf, Hs. subst o2.
      destruct o1 as [t|]; [|exact Hs].
      destruct t as [bv|iv|lv|hv|hlv|fb|str|nm|pt| | ]; try (apply (scalar_branch s1' s2' _ parent cur Hs)).
      - (* string *)
        destruct (p_string_sim f s1' s2' [] Hs) as [Hf2 Hs2].
        destruct (p_string f s1' []) as [v1 t1], (p_string f s2' []) as [v2 t2]. cbn [fst snd] in Hf2, Hs2. subst v2.
        destruct v1 as [v|]; [|exact Hs2].
        pose proof (act_scalar_sim t1 t2 parent cur TString _ None (n_set_string_ok (Some v)) Hs2) as Ha. unfold string_scalar.
        destruct (act_scalar t1 parent cur (TString, fun s => n_set_string s (Some v), None)),
                 (act_scalar t2 parent cur (TString, fun s => n_set_string s (Some v), None)); cbn in Ha; try contradiction;
          cbn [pres_sim]; auto.
      - (* punctuation *)
        destruct pt; try (apply (scalar_branch s1' s2' _ parent cur Hs));
          (destruct simple; [cbn [pres_sim]; auto | apply IHa; apply shift_sim; exact Hs]). }
    assert (Ha : S_agg (S f)).
    { intros s1 s2 parent cur k H. rewrite !p_agg_S. pose proof (act_open_sim s1 s2 parent cur k H) as Ho.
      destruct (act_open ov s1 parent cur k) as [[a1 np1]|], (act_open ov s2 parent cur k) as [[a2 np2]|]; cbn in Ho; try contradiction; [|exact H].
      destruct Ho as [Ho <-]. cbv zeta. destruct k.
      - pose proof (IHe a1 a2 np1 true true Ho) as Hb.
        destruct (p_elems ov f a1 np1 true true), (p_elems ov f a2 np1 true true); cbn [pres_sim] in Hb; try contradiction; try exact Hb.
        apply expect_sim. exact Hb.
      - pose proof (IHe a1 a2 np1 false true Ho) as Hb.
        destruct (p_elems ov f a1 np1 false true), (p_elems ov f a2 np1 false true); cbn [pres_sim] in Hb; try contradiction; try exact Hb.
        apply expect_sim. exact Hb.
      - pose proof (IHs a1 a2 np1 Ho) as Hb.
        destruct (p_settings ov f a1 np1), (p_settings ov f a2 np1); cbn [pres_sim] in Hb; try contradiction; try exact Hb.
        apply expect_sim. exact Hb. }
    assert (He : S_elems (S f)).
    { intros s1 s2 parent simple first H. rewrite !p_elems_S. destruct (peek_sim s1 s2 H) as [Hf Hs].
      destruct (peek s1) as [o1 s1'], (peek s2) as [o2 s2']. cbn [fst snd] in Hf, Hs. subst o2.
      destruct o1 as [t|]; [|exact Hs]. destruct first.
      - destruct (is_value_start simple t); [|exact Hs]. pose proof (IHv s1' s2' parent None simple Hs) as Hb.
        destruct (p_value ov f s1' parent None simple), (p_value ov f s2' parent None simple); cbn [pres_sim] in Hb; try contradiction; try exact Hb.
        apply IHe. exact Hb.
      - destruct t; try exact Hs. destruct t; try exact Hs. cbv zeta.
        destruct (peek_sim (shift s1') (shift s2') (shift_sim _ _ Hs)) as [Hf3 Hs3].
        destruct (peek (shift s1')) as [o3 s3], (peek (shift s2')) as [o4 s4]. cbn [fst snd] in Hf3, Hs3. subst o4.
        destruct o3 as [t2|]; [|exact Hs3].
        destruct (is_value_start simple t2); [|apply IHe; exact Hs3]. pose proof (IHv s3 s4 parent None simple Hs3) as Hb.
        destruct (p_value ov f s3 parent None simple), (p_value ov f s4 parent None simple); cbn [pres_sim] in Hb; try contradiction; try exact Hb.
        apply IHe. exact Hb. }
    assert (Hst : S_settings (S f)).
    { intros s1 s2 parent H. rewrite !p_settings_S. destruct (peek_sim s1 s2 H) as [Hf Hs].
      destruct (peek s1) as [o1 s1'], (peek s2) as [o2 s2']. cbn [fst snd] in Hf, Hs. subst o2.
      destruct o1 as [t|]; [|exact Hs]. destruct t; try exact Hs. cbv zeta.
      pose proof (act_name_sim (shift s1') (shift s2') parent s (shift_sim _ _ Hs)) as Hn.
      destruct (act_name ov (shift s1') parent s) as [[a1 sp1]|], (act_name ov (shift s2') parent s) as [[a2 sp2]|]; cbn in Hn; try contradiction;
        [|cbn [pres_sim]; split; [reflexivity | apply shift_sim; exact Hs]].
      destruct Hn as [Hn <-]. pose proof (expect_sim a1 a2 TEquals Hn) as Hx.
      destruct (expect a1 TEquals) as [b1| | |], (expect a2 TEquals) as [b2| | |]; cbn [pres_sim] in Hx; try contradiction; try exact Hx.
      pose proof (IHv b1 b2 parent (Some sp1) false Hx) as Hval.
      destruct (p_value ov f b1 parent (Some sp1) false) as [c1| | |], (p_value ov f b2 parent (Some sp1) false) as [c2| | |];
        cbn [pres_sim] in Hval; try contradiction; try exact Hval.
      apply IHs. destruct (peek_sim c1 c2 Hval) as [Hf5 Hs5].
      destruct (peek c1) as [o5 d1], (peek c2) as [o6 d2]. cbn [fst snd] in Hf5, Hs5. subst o6.
      destruct o5 as [t5|]; [|exact Hs5]. destruct t5; try exact Hs5. destruct t; try exact Hs5; apply shift_sim; exact Hs5. }
    auto.
  Qed.
End ParseSim.

Lemma p_config_sim ov s1 s2 : psim s1 s2 -> pres_sim (p_config ov s1) (p_config ov s2).
Proof.
  intros H. unfold p_config. pose proof H as (_ & Ht & _).
  assert (El : length (p_toks s1) = length (p_toks s2)) by (rewrite <- (map_length lt_tok (p_toks s1)), Ht; apply map_length).
  rewrite El. destruct (parser_pos_irrelevant ov (S (4 * length (p_toks s2)))) as (_ & _ & _ & Hs).
  pose proof (Hs s1 s2 [] H) as Hb.
  destruct (p_settings ov (S (4 * length (p_toks s2))) s1 []), (p_settings ov (S (4 * length (p_toks s2))) s2 []);
    cbn [pres_sim] in Hb; try contradiction; try exact Hb.
  destruct (peek_sim _ _ Hb) as [Hf Hp]. destruct (peek s) as [o1 a1], (peek s0) as [o2 a2]. cbn [fst snd] in Hf, Hp. subst o2.
  destruct o1 as [t|]; [|exact Hp]. destruct t; cbn [pres_sim]; auto.
Qed.

(* the nesting depth of a token stream depends on the token values only *)
Lemma max_nest_tok : forall t1 t2 cur best, map lt_tok t1 = map lt_tok t2 -> max_nest t1 cur best = max_nest t2 cur best.
Proof.
  induction t1 as [|x t1 IH]; intros [|y t2] cur best H; cbn [map] in H; try discriminate H; [reflexivity|].
  injection H as Hx Ht. cbn [max_nest]. rewrite Hx. destruct (lt_tok y) as [| | | | | | | |p| |]; try (apply IH; exact Ht).
  destruct p; apply IH; exact Ht.
Qed.

(* ================================================================================================================ *)
(* A.4 config_read                                                                                                   *)
(* ================================================================================================================ *)
(* two texts whose token streams have the same values and the same stop kind are read to the same outcome and the
   same configuration tree up to the recorded positions *)
Theorem config_read_tokens : forall atof FS c top text1 text2,
  (let '(t1, p1) := lex_top atof FS (set_files (set_root (set_err c err0) new_root) []) top text1 in
   let '(t2, p2) := lex_top atof FS (set_files (set_root (set_err c err0) new_root) []) top text2 in
   map lt_tok t1 = map lt_tok t2 /\ p1 = p2) ->
  rd_out_ (config_read atof FS c top text1) = rd_out_ (config_read atof FS c top text2) /\
  unpos (c_root (rd_cfg (config_read atof FS c top text1))) = unpos (c_root (rd_cfg (config_read atof FS c top text2))).
Proof.
  intros atof FS c top text1 text2 H. unfold config_read, clear_cfg.
  set (c1 := set_files (set_root (set_err c err0) new_root) []) in *.
  destruct (lex_top atof FS c1 top text1) as [t1 p1], (lex_top atof FS c1 top text2) as [t2 p2]. destruct H as [Ht <-].
  rewrite (max_nest_tok t1 t2 0 0 Ht). destruct (NEST_LIMIT <? max_nest t2 0 0); [split; reflexivity|].
  set (ov := get_option c1 OPT_OVERRIDES).
  assert (Hs : psim (mkP (set_pos (c_root c1) 0 top) t1 false 0 0 None) (mkP (set_pos (c_root c1) 0 top) t2 false 0 0 None)).
  { unfold psim. cbn [p_root p_toks p_la p_read]. auto. }
  pose proof (p_config_sim ov _ _ Hs) as Hr.
  destruct (p_config ov (mkP (set_pos (c_root c1) 0 top) t1 false 0 0 None)) as [a|e a|a|a],
           (p_config ov (mkP (set_pos (c_root c1) 0 top) t2 false 0 0 None)) as [b|e' b|b|b]; cbn [pres_sim] in Hr; try contradiction.
  - destruct Hr as (Hroot & _). cbn. split; [reflexivity | exact Hroot].
  - destruct Hr as (_ & Hroot & _). cbn. split; [reflexivity | exact Hroot].
  - destruct Hr as (Hroot & _). cbn. split; [reflexivity | exact Hroot].
  - cbn. split; reflexivity.
Qed.

Lemma lex_top_cfg atof FS c c' top text : c_incdir c = c_incdir c' -> c_incfn c = c_incfn c' ->
  lex_top atof FS c top text = lex_top atof FS c' top text.
Proof. intros H1 H2. unfold lex_top. rewrite H1, H2. reflexivity. Qed.

(* A. Reading a text with an @include of a plain file, and reading the text with the file spliced in at the directive:
   the same outcome (RdOk / RdFail / ...) and the same configuration (settings, order, names, types, values, formats,
   hooks) - only the recorded source lines and file names differ.  The error fields of the configuration (text, file,
   line of a parse error) are not compared: the line and the file of an error after the splice point do differ. *)
Theorem splice_read : forall atof FS c top pre dir post content f,
  plain atof pre -> plain atof content -> bytes_ok dir -> bytes_ok post -> (post = [] \/ exists post', post = 10 :: post') ->
  directive atof FS (c_incdir c) (c_incfn c) MAX_INCLUDE_DEPTH (lstate0 top) (mkBuf (dir ++ post) true 1) [f] post ->
  fs_lookup FS f = Some (FFile content) ->
  let r1 := config_read atof FS c top (pre ++ dir ++ post) in
  let r2 := config_read atof FS c top (pre ++ content ++ post) in
  rd_out_ r1 = rd_out_ r2 /\ unpos (c_root (rd_cfg r1)) = unpos (c_root (rd_cfg r2)).
Proof.
  intros atof FS c top pre dir post content f Hpre Hc Hbd Hbp Hpost Hdir Hfs. cbv zeta.
  apply config_read_tokens.
  rewrite !(lex_top_cfg atof FS (set_files (set_root (set_err c err0) new_root) []) c top) by reflexivity.
  exact (splice_top atof FS c top pre dir post content f Hpre Hc Hbd Hbp Hpost Hdir Hfs).
Qed.

(* ---- example (the texts of Splice.v): both reads succeed, the trees have the same four settings, and they differ
   exactly in the recorded positions (the settings of the included file carry its name and its own lines) ---- *)
Definition rd_view (r : rd_result) : rd_out * list (option bytes * payload * Z * option bytes) :=
  (rd_out_ r, map (fun k => (s_name k, s_pl k, s_line k, s_file k)) (s_kids (c_root (rd_cfg r)))).

Example ex_read_views :
  rd_view (config_read ex_atof ex_fs cfg_init None (ex_pre ++ ex_dir ++ ex_post)) =
    (RdOk, [(Some [120], PInt 1, 1, None); (Some [115], PStr (Some [97; 10; 98]), 1, Some [102]);
            (Some [110], PInt 42, 3, Some [102]); (Some [121], PInt 2, 3, None)]) /\
  rd_view (config_read ex_atof ex_fs cfg_init None (ex_pre ++ ex_c ++ ex_post)) =
    (RdOk, [(Some [120], PInt 1, 1, None); (Some [115], PStr (Some [97; 10; 98]), 2, None);
            (Some [110], PInt 42, 4, None); (Some [121], PInt 2, 6, None)]).
Proof. vm_compute. auto. Qed.

Example ex_splice_read :
  let r1 := config_read ex_atof ex_fs cfg_init None (ex_pre ++ ex_dir ++ ex_post) in
  let r2 := config_read ex_atof ex_fs cfg_init None (ex_pre ++ ex_c ++ ex_post) in
  rd_out_ r1 = rd_out_ r2 /\ unpos (c_root (rd_cfg r1)) = unpos (c_root (rd_cfg r2)).
Proof.
  apply (splice_read ex_atof ex_fs cfg_init None ex_pre ex_dir ex_post ex_c [102] ex_pre_plain ex_c_plain);
    try (apply bytes_okb_sound; vm_compute; reflexivity); [right; eexists; reflexivity | exact ex_directive | reflexivity].
Qed.

Print Assumptions parser_pos_irrelevant.
Print Assumptions config_read_tokens.
Print Assumptions splice_read.
Print Assumptions ex_splice_read.
