(* HookFacts.v — conservation of hooks: every hook that leaves the tree is reported by exactly one
   destructor event, in the step that destroys its setting (lemmas behind Properties_C16). *)
From Coq Require Import List ZArith Bool Lia Permutation.
Import ListNotations.
From LC Require Import Base Tree Fp Lookup Api ApiStep TreeFacts ApiFacts.
Local Open Scope Z_scope.

Definition own_hook (s : setting) : list Z :=
  match s_hook s with Some x => [x] | None => [] end.

(* __config_setting_destroy: children first, in order, then the setting's own hook *)
Lemma destroy_log_unfold s : destroy_log s = flat_map destroy_log (s_kids s) ++ own_hook s.
Proof.
  destruct s as [n p k f h l fi]. reflexivity.
Qed.

Definition dtors (ev : list event) : list Z :=
  flat_map (fun e => match e with EvDtor h => [h] | _ => [] end) ev.

Lemma dtors_map l : dtors (map EvDtor l) = l.
Proof. induction l as [|x r IH]; [reflexivity|]. cbn. unfold dtors in IH. rewrite IH. reflexivity. Qed.

Lemma dtors_dlog c v : dtors (dlog c v) = if c_dtor c then destroy_log v else [].
Proof. unfold dlog. destruct (c_dtor c); [apply dtors_map | reflexivity]. Qed.

Lemma dtors_app a b : dtors (a ++ b) = dtors a ++ dtors b.
Proof. unfold dtors. apply flat_map_app. Qed.

(* ---- field updates that do not touch hooks ---- *)
Lemma destroy_log_set_pl s p : destroy_log (set_pl s p) = destroy_log s.
Proof. destruct s; reflexivity. Qed.
Lemma destroy_log_set_fmt s f : destroy_log (set_fmt s f) = destroy_log s.
Proof. destruct s; reflexivity. Qed.
Lemma destroy_log_set_pos s l f : destroy_log (set_pos s l f) = destroy_log s.
Proof. destruct s; reflexivity. Qed.
Lemma destroy_log_new n t : destroy_log (new_setting n t) = [].
Proof. reflexivity. Qed.
Lemma destroy_log_set_kids s k : destroy_log (set_kids s k) = flat_map destroy_log k ++ own_hook s.
Proof. rewrite destroy_log_unfold. destruct s; reflexivity. Qed.

(* ---- list surgery ---- *)
Lemma flat_map_del_perm {A} (g : A -> list Z) l i v :
  nth_error l i = Some v -> Permutation (flat_map g l) (flat_map g (list_del i l) ++ g v).
Proof.
  revert i; induction l as [|x r IH]; intros [|i]; cbn [nth_error list_del flat_map]; try discriminate.
  - intros [= ->]. apply Permutation_app_comm.
  - intros H. rewrite <- app_assoc. apply Permutation_app_head. apply IH. exact H.
Qed.

Lemma flat_map_upd_perm {A} (g : A -> list Z) l i k k' X Y :
  nth_error l i = Some k -> Permutation (g k ++ X) (g k' ++ Y) ->
  Permutation (flat_map g l ++ X) (flat_map g (list_upd i (fun _ => k') l) ++ Y).
Proof.
  revert i; induction l as [|x r IH]; intros [|i]; cbn [nth_error list_upd flat_map]; try discriminate.
  - intros [= ->] HP. rewrite <- !app_assoc.
    transitivity (flat_map g r ++ g k ++ X).
    { rewrite !app_assoc. apply Permutation_app_tail. apply Permutation_app_comm. }
    transitivity (flat_map g r ++ g k' ++ Y); [apply Permutation_app_head; exact HP|].
    rewrite !app_assoc. apply Permutation_app_tail. apply Permutation_app_comm.
  - intros H HP. rewrite <- !app_assoc. apply Permutation_app_head. apply IH; assumption.
Qed.

Lemma list_upd_const {A} i (f : A -> A) l k :
  nth_error l i = Some k -> list_upd i f l = list_upd i (fun _ => f k) l.
Proof.
  revert i; induction l as [|x r IH]; intros [|i]; cbn [nth_error list_upd]; try discriminate.
  - intros [= ->]. reflexivity.
  - intros H. f_equal. apply IH. exact H.
Qed.

(* ---- replacing a subtree ---- *)
Lemma hooks_upd_at p : forall f r s, get_at p r = Some s ->
  Permutation (destroy_log r ++ destroy_log (f s)) (destroy_log (upd_at p f r) ++ destroy_log s).
Proof.
  induction p as [|i q IH]; intros f r s H.
  - cbn in H. injection H as <-. cbn [upd_at]. apply Permutation_app_comm.
  - cbn [get_at] in H. destruct (nth_error (s_kids r) i) as [k|] eqn:Hk; [|discriminate].
    cbn [upd_at]. rewrite destroy_log_set_kids. rewrite (destroy_log_unfold r).
    rewrite (list_upd_const i (upd_at q f) (s_kids r) k Hk).
    rewrite <- !app_assoc.
    transitivity (flat_map destroy_log (s_kids r) ++ destroy_log (f s) ++ own_hook r).
    { apply Permutation_app_head. apply Permutation_app_comm. }
    transitivity (flat_map destroy_log (list_upd i (fun _ => upd_at q f k) (s_kids r)) ++ destroy_log s ++ own_hook r).
    2: { apply Permutation_app_head. apply Permutation_app_comm. }
    rewrite !app_assoc. apply Permutation_app_tail.
    apply (flat_map_upd_perm destroy_log (s_kids r) i k (upd_at q f k)); [exact Hk|].
    apply IH. exact H.
Qed.

(* node-level change s -> s' releasing D, lifted to the root *)
Lemma hooks_replace p r s s' D :
  get_at p r = Some s -> Permutation (destroy_log s) (destroy_log s' ++ D) ->
  Permutation (destroy_log r) (destroy_log (upd_at p (fun _ => s') r) ++ D).
Proof.
  intros Hg HP. pose proof (hooks_upd_at p (fun _ => s') r s Hg) as H. cbn beta in H.
  apply (Permutation_app_inv_r (destroy_log s')).
  rewrite H. rewrite <- app_assoc. apply Permutation_app_head.
  rewrite HP. apply Permutation_app_comm.
Qed.

(* ---- the node-level operations ---- *)
Lemma n_add_hooks ov s name tcode s' i victim :
  n_add ov s name tcode = Some (s', i, victim) ->
  Permutation (destroy_log s)
              (destroy_log s' ++ match victim with Some v => destroy_log v | None => [] end).
Proof.
  intros A. destruct (n_add_spec _ _ _ _ _ _ _ A) as (t & Ht & Hi & Hv). cbn zeta in Hv.
  destruct victim as [v|].
  - destruct Hv as (_ & j & _ & Hn & ->). rewrite destroy_log_set_kids, (destroy_log_unfold s).
    rewrite flat_map_app. cbn [flat_map]. rewrite destroy_log_new, app_nil_r.
    rewrite <- app_assoc.
    transitivity ((flat_map destroy_log (list_del j (s_kids s)) ++ destroy_log v) ++ own_hook s).
    { apply Permutation_app_tail. apply flat_map_del_perm. exact Hn. }
    rewrite <- app_assoc. apply Permutation_app_head. apply Permutation_app_comm.
  - destruct Hv as (_ & ->). rewrite destroy_log_set_kids, (destroy_log_unfold s).
    rewrite flat_map_app. cbn [flat_map]. rewrite destroy_log_new, !app_nil_r. reflexivity.
Qed.

Lemma n_remove_elem_hooks s idx s' v :
  n_remove_elem s idx = Some (s', v) -> Permutation (destroy_log s) (destroy_log s' ++ destroy_log v).
Proof.
  intros R. destruct (n_remove_elem_spec _ _ _ _ R) as (_ & Hn & ->).
  rewrite destroy_log_set_kids, (destroy_log_unfold s). rewrite <- app_assoc.
  transitivity ((flat_map destroy_log (list_del (Z.to_nat idx) (s_kids s)) ++ destroy_log v) ++ own_hook s).
  { apply Permutation_app_tail. apply flat_map_del_perm. exact Hn. }
  rewrite <- app_assoc. apply Permutation_app_head. apply Permutation_app_comm.
Qed.

Lemma n_remove_hooks s path s' v :
  n_remove s path = Some (s', v) -> Permutation (destroy_log s) (destroy_log s' ++ destroy_log v).
Proof.
  intros R. destruct (n_remove_spec _ _ _ _ R) as (rel & idx & _ & (h & Hg & Hn & ->) & _).
  pose proof (hooks_upd_at (removelast rel) (fun h0 => set_kids h0 (list_del idx (s_kids h0))) s h Hg) as H.
  cbn beta in H.
  apply (Permutation_app_inv_r (destroy_log (set_kids h (list_del idx (s_kids h))))).
  rewrite H. rewrite <- app_assoc. apply Permutation_app_head.
  rewrite destroy_log_set_kids, (destroy_log_unfold h).
  transitivity ((flat_map destroy_log (list_del idx (s_kids h)) ++ destroy_log v) ++ own_hook h).
  { apply Permutation_app_tail. apply flat_map_del_perm. exact Hn. }
  rewrite !app_assoc. apply Permutation_app_tail. apply Permutation_app_comm.
Qed.

Lemma setter_hooks c k v s s' : setter c k v s = SOk s' -> destroy_log s' = destroy_log s.
Proof. intros S. destruct (setter_frame _ _ _ _ _ S) as (pl & ->). apply destroy_log_set_pl. Qed.

Lemma n_set_elem_hooks c k v agg idx s' i :
  n_set_elem (sk_ty k) (setter c k v) agg idx = EOk s' i -> Permutation (destroy_log agg) (destroy_log s').
Proof.
  intros S. destruct (n_set_elem_spec _ _ _ _ _ _ S) as [(H1 & _ & H2 & H3)|(H1 & H2 & H3)].
  - destruct H3 as (e & He & ->). rewrite destroy_log_set_kids, (destroy_log_unfold agg).
    rewrite flat_map_app. cbn [flat_map]. rewrite (setter_hooks _ _ _ _ _ He), destroy_log_new, !app_nil_r.
    reflexivity.
  - destruct H3 as (e & e' & Hn & He & ->). rewrite destroy_log_set_kids, (destroy_log_unfold agg).
    apply Permutation_app_tail.
    pose proof (flat_map_upd_perm destroy_log (s_kids agg) i e e' [] []) as P.
    rewrite !app_nil_r in P. apply P; [exact Hn|]. rewrite (setter_hooks _ _ _ _ _ He). reflexivity.
Qed.

(* ---- one step ---- *)
Definition hook_neutral (o : aop) : bool :=
  match o with OInit | OHook _ _ | OSetDtor _ => false | _ => true end.

Lemma at_node_hooks c p f c' r ev :
  at_node c p f = (c', r, ev) ->
  (forall s o r0 ev0, get_at p (c_root c) = Some s -> f s = (o, r0, ev0) ->
     match o with
     | Some s' => Permutation (destroy_log s) (destroy_log s' ++ dtors ev0)
     | None => dtors ev0 = []
     end) ->
  Permutation (destroy_log (c_root c)) (destroy_log (c_root c') ++ dtors ev).
Proof.
  unfold at_node. intros H Hf. destruct (get_at p (c_root c)) as [s|] eqn:G.
  - destruct (f s) as [[o r0] ev0] eqn:F. specialize (Hf s o r0 ev0 eq_refl F).
    destruct o as [s'|]; inv H.
    + cbn [c_root set_root]. apply hooks_replace with (s := s); assumption.
    + rewrite Hf, app_nil_r. reflexivity.
  - inv H. cbn. rewrite app_nil_r. reflexivity.
Qed.

Theorem step_hooks c o c' r ev :
  api_step c o = (c', r, ev) -> c_dtor c = true -> hook_neutral o = true ->
  Permutation (destroy_log (c_root c)) (destroy_log (c_root c') ++ dtors ev).
Proof.
  intros H Hd Hn.
  assert (Hq : forall c0 p g, at_node c0 p (fun s => (None, g s, [])) = (c', r, ev) -> c0 = c ->
               Permutation (destroy_log (c_root c)) (destroy_log (c_root c') ++ dtors ev)).
  { intros c0 p g Hq ->. eapply at_node_hooks; [exact Hq|]. intros s oo r0 ev0 _ E. cbn beta in E. inv E. reflexivity. }
  destruct o; cbn [hook_neutral] in Hn; try discriminate; cbn [api_step] in H;
    try (inv H; cbn; rewrite app_nil_r; reflexivity);
    try (eapply Hq; [exact H | reflexivity]).
  - (* OClear *) unfold clear_cfg in H. inv H. cbn. rewrite dtors_dlog, Hd. reflexivity.
  - (* ODestroy *) inv H. cbn. rewrite dtors_dlog, Hd. reflexivity.
  - (* OAdd *)
    eapply at_node_hooks; [exact H|]. intros s oo r0 ev0 _ E. cbn beta in E.
    destruct (n_add _ s name tcode) as [[[s' i] victim]|] eqn:A; inv E; [|reflexivity].
    pose proof (n_add_hooks _ _ _ _ _ _ _ A) as P. destruct victim as [v|].
    + rewrite dtors_dlog, Hd. exact P.
    + exact P.
  - (* ORemove *)
    eapply at_node_hooks; [exact H|]. intros s oo r0 ev0 _ E. cbn beta in E.
    destruct path as [pa|]; [|inv E; reflexivity].
    destruct (n_remove s pa) as [[s' v]|] eqn:R; inv E; [|reflexivity].
    rewrite dtors_dlog, Hd. eapply n_remove_hooks; eassumption.
  - (* ORemoveElem *)
    eapply at_node_hooks; [exact H|]. intros s oo r0 ev0 _ E. cbn beta in E.
    destruct (n_remove_elem s (to_uint32 idx)) as [[s' v]|] eqn:R; inv E; [|reflexivity].
    rewrite dtors_dlog, Hd. eapply n_remove_elem_hooks; eassumption.
  - (* OSet *)
    eapply at_node_hooks; [exact H|]. intros s oo r0 ev0 _ E. cbn beta in E.
    destruct (setter c k v s) as [|s'|] eqn:S; inv E; try reflexivity.
    cbn. rewrite app_nil_r, (setter_hooks _ _ _ _ _ S). reflexivity.
  - (* OSetElem *)
    eapply at_node_hooks; [exact H|]. intros s oo r0 ev0 _ E. cbn beta in E.
    destruct (n_set_elem _ _ s idx) as [|s' i|] eqn:S; inv E; try reflexivity.
    cbn. rewrite app_nil_r. eapply n_set_elem_hooks; eassumption.
  - (* OSetFormat *)
    eapply at_node_hooks; [exact H|]. intros s oo r0 ev0 _ E. cbn beta in E.
    destruct (n_set_format s (to_uint16 f)) as [|s'|] eqn:S; inv E; try reflexivity.
    destruct (n_set_format_frame _ _ _ S) as (-> & _). cbn. rewrite app_nil_r, destroy_log_set_fmt. reflexivity.
Qed.

(* without a registered destructor nothing is ever called *)
Lemma at_node_events c p f c' r ev :
  at_node c p f = (c', r, ev) -> ev = [] \/ exists s o r0, f s = (o, r0, ev).
Proof.
  unfold at_node. destruct (get_at p (c_root c)) as [s|]; [|intros H; inv H; left; reflexivity].
  destruct (f s) as [[o r0] ev0] eqn:F. intros H. right. exists s, o, r0.
  destruct o; inv H; exact F.
Qed.

Theorem step_no_dtor c o c' r ev :
  api_step c o = (c', r, ev) -> c_dtor c = false -> dtors ev = [].
Proof.
  intros H Hd.
  assert (Hdl : forall v, dlog c v = []) by (intros v; unfold dlog; rewrite Hd; reflexivity).
  destruct o; cbn [api_step] in H;
    try (inv H; reflexivity);
    try (unfold clear_cfg in H; inv H; rewrite Hdl; reflexivity);
    try (apply at_node_events in H as [-> | (s & oo & r0 & F)]; [reflexivity|]; cbn beta in F).
  all: try (inv F; reflexivity).
  - destruct (n_add _ s name tcode) as [[[s' i] [v|]]|]; inv F; rewrite ?Hdl; reflexivity.
  - destruct path as [pa|]; [|inv F; reflexivity].
    destruct (n_remove s pa) as [[s' v]|]; inv F; rewrite ?Hdl; reflexivity.
  - destruct (n_remove_elem s _) as [[s' v]|]; inv F; rewrite ?Hdl; reflexivity.
  - destruct (setter c k v s); inv F; reflexivity.
  - destruct (n_set_elem _ _ s idx); inv F; reflexivity.
  - destruct (n_set_format s _); inv F; reflexivity.
Qed.

(* attaching a hook: the setting's previous hook value is overwritten without a destructor call *)
Theorem step_set_hook c p h c' r ev :
  api_step c (OHook p h) = (c', r, ev) ->
  ev = [] /\
  match get_at p (c_root c) with
  | Some s => Permutation (destroy_log (c_root c) ++ match h with Some x => [x] | None => [] end)
                          (destroy_log (c_root c') ++ own_hook s)
  | None => c' = c
  end.
Proof.
  cbn [api_step]. unfold at_node. destruct (get_at p (c_root c)) as [s|] eqn:G; intros H; inv H; [|auto].
  split; [reflexivity|]. cbn [c_root set_root].
  pose proof (hooks_upd_at p (fun _ => set_hook s h) (c_root c) s G) as P. cbn beta in P.
  assert (E : destroy_log (set_hook s h) = flat_map destroy_log (s_kids s) ++ match h with Some x => [x] | None => [] end).
  { rewrite destroy_log_unfold. destruct s; reflexivity. }
  rewrite E in P. rewrite (destroy_log_unfold s) in P.
  apply (Permutation_app_inv_l (flat_map destroy_log (s_kids s))).
  transitivity (destroy_log (c_root c) ++ flat_map destroy_log (s_kids s) ++ match h with Some x => [x] | None => [] end).
  { rewrite !app_assoc. apply Permutation_app_tail. apply Permutation_app_comm. }
  rewrite P. rewrite !app_assoc. apply Permutation_app_tail. apply Permutation_app_comm.
Qed.

(* ---- histories ---- *)
Fixpoint run_ev (c : cfg) (ops : list aop) : cfg * list event :=
  match ops with
  | [] => (c, [])
  | o :: r => let '(c1, _, ev) := api_step c o in
              let '(c2, ev2) := run_ev c1 r in (c2, ev ++ ev2)
  end.

Lemma step_keeps_dtor c o c' r ev :
  api_step c o = (c', r, ev) -> hook_neutral o = true -> o <> ODestroy -> c_dtor c' = c_dtor c.
Proof.
  intros H Hn Hnd.
  destruct o; cbn [hook_neutral] in Hn; try discriminate; try congruence; cbn [api_step] in H;
    try (inv H; reflexivity);
    try (apply at_node_attrs in H as [Ha _]; unfold attrs in Ha; congruence).
  all: try (unfold clear_cfg in H; inv H; reflexivity).
Qed.

Theorem run_hooks ops : forall c c' ev,
  run_ev c ops = (c', ev) -> c_dtor c = true ->
  forallb hook_neutral ops = true -> (forall o, In o ops -> o <> ODestroy) ->
  Permutation (destroy_log (c_root c)) (destroy_log (c_root c') ++ dtors ev).
Proof.
  induction ops as [|o r IH]; intros c c' ev H Hd Hn Hnd.
  - inv H. cbn. rewrite app_nil_r. reflexivity.
  - cbn [run_ev] in H. destruct (api_step c o) as [[c1 r1] ev1] eqn:S.
    destruct (run_ev c1 r) as [c2 ev2] eqn:R. inv H.
    cbn [forallb] in Hn. apply andb_true_iff in Hn as [Hn1 Hn2].
    pose proof (step_hooks _ _ _ _ _ S Hd Hn1) as P1.
    assert (Hd1 : c_dtor c1 = true).
    { rewrite (step_keeps_dtor _ _ _ _ _ S Hn1); [exact Hd | apply Hnd; left; reflexivity]. }
    pose proof (IH _ _ _ R Hd1 Hn2 (fun o0 Ho => Hnd o0 (or_intror Ho))) as P2.
    rewrite dtors_app. rewrite P1, P2. rewrite <- app_assoc. apply Permutation_app_head.
    apply Permutation_app_comm.
Qed.

(* destroying the configuration releases everything: over a whole history ending with config_destroy,
   the destructor calls are a permutation of the hooks present at the start *)
Theorem run_then_destroy ops c c' ev cd rd evd :
  run_ev c ops = (c', ev) -> c_dtor c = true ->
  forallb hook_neutral ops = true -> (forall o, In o ops -> o <> ODestroy) ->
  api_step c' ODestroy = (cd, rd, evd) ->
  Permutation (destroy_log (c_root c)) (dtors (ev ++ evd)) /\ destroy_log (c_root cd) = [].
Proof.
  intros R Hd Hn Hnd D.
  pose proof (run_hooks _ _ _ _ R Hd Hn Hnd) as P.
  assert (Hd' : c_dtor c' = true).
  { clear P D. revert c c' ev R Hd Hn Hnd. induction ops as [|o r IH]; intros c c' ev R Hd Hn Hnd.
    - inv R. exact Hd.
    - cbn [run_ev] in R. destruct (api_step c o) as [[c1 r1] ev1] eqn:S.
      destruct (run_ev c1 r) as [c2 ev2] eqn:R2. inv R.
      cbn [forallb] in Hn. apply andb_true_iff in Hn as [Hn1 Hn2].
      eapply IH; [exact R2| |exact Hn2|intros o0 Ho; apply Hnd; right; exact Ho].
      rewrite (step_keeps_dtor _ _ _ _ _ S Hn1); [exact Hd | apply Hnd; left; reflexivity]. }
  cbn [api_step] in D. inv D. split; [|reflexivity].
  rewrite dtors_app, dtors_dlog, Hd'. rewrite P. apply Permutation_app_comm.
Qed.

(* with pairwise distinct hooks: nothing is released twice, and nothing alive is released *)
Corollary released_once (l live rel : list Z) :
  NoDup l -> Permutation l (live ++ rel) -> NoDup rel /\ forall h, In h rel -> ~ In h live.
Proof.
  intros Hnd P. assert (N : NoDup (live ++ rel)) by (eapply Permutation_NoDup; eassumption).
  clear P Hnd. induction live as [|x live IH]; [split; [exact N | intros h _ []]|].
  cbn in N. inversion N as [|? ? Hx N']; subst. destruct (IH N') as [H1 H2]. split; [exact H1|].
  intros h Hr [->|Hl]; [apply Hx; apply in_or_app; right; exact Hr | exact (H2 h Hr Hl)].
Qed.
