(* ApiStep.v — operations on one configuration (everything except reading/writing text) as a
   state machine: api_step : cfg -> aop -> cfg * ret * list event.  Definitions only. *)
From Coq Require Import List ZArith Bool.
Import ListNotations.
From LC Require Import Base Tree Fp Lookup Api.
Local Open Scope Z_scope.

Inductive sk := KInt | KInt64 | KFloat | KBool | KString.

Definition sk_ty (k : sk) : ty :=
  match k with KInt => TInt | KInt64 => TInt64 | KFloat => TFloat | KBool => TBool | KString => TString end.

(* an argument or result value: integers, booleans and double bit patterns are Z *)
Inductive arg := AZ (z : Z) | AS (s : option bytes).

Inductive aop :=
| OInit | OClear | ODestroy
| OSetOptions (o : Z) | OSetOption (bit flag : Z) | OGetOption (bit : Z)
| OSetTab (n : Z) | OSetPrec (n : Z) | OSetDefFmt (n : Z)
| OSetIncDir (d : option bytes) | OSetIncFn (f : incfn) | OSetDtor (b : bool) | OSetCHook (h : option Z)
| OHook (p : ipath) (h : option Z)
| OAdd (p : ipath) (name : option bytes) (tcode : Z)
| ORemove (p : ipath) (path : option bytes)
| ORemoveElem (p : ipath) (idx : Z)
| OSet (k : sk) (p : ipath) (v : arg)
| OSetElem (k : sk) (p : ipath) (idx : Z) (v : arg)
| OSetFormat (p : ipath) (f : Z)
| OGet (k : sk) (p : ipath)
| OGetElem (k : sk) (p : ipath) (idx : Z)
| OGetFormat (p : ipath)
| OMLook (k : sk) (p : ipath) (name : option bytes)      (* config_setting_lookup_<k> *)
| OPLook (k : sk) (path : bytes)                         (* config_lookup_<k> *)
| OLookup (p : ipath) (path : bytes)                     (* config_setting_lookup *)
| OCLookup (path : bytes)                                (* config_lookup *)
| OMember (p : ipath) (name : option bytes)
| OElem (p : ipath) (idx : Z)
| OLength (p : ipath) | OIndex (p : ipath) | OName (p : ipath) | OType (p : ipath)
| OIsRoot (p : ipath) | OParent (p : ipath)
| OIsKind (p : ipath).                                   (* is_group/array/list/number/scalar/aggregate bits *)

Inductive ret :=
| RUnit
| RInt (z : Z)
| RFloat (b : Z)
| RStr (o : option bytes)
| RNode (o : option ipath)
| RLook (ok : Z) (out : option ret)       (* typed lookup: return value and, on success, the output *)
| RBadHandle                              (* the script addressed a setting that does not exist *)
| RUnspec                                 (* a C cast outside its defined domain *)
| RCrash.                                 (* the code dereferences NULL here *)

Inductive event :=
| EvDtor (h : Z)                          (* destructor called on this hook *)
| EvOpen (path : bytes) | EvClose (path : bytes)
| EvIncl (path : bytes).                  (* custom include function called *)

Definition dlog (c : cfg) (victim : setting) : list event :=
  if c_dtor c then map EvDtor (destroy_log victim) else [].

Definition auto (c : cfg) : bool := get_option c OPT_AUTOCONVERT.

Definition arg_z (a : arg) : Z := match a with AZ z => z | AS _ => 0 end.
Definition arg_s (a : arg) : option bytes := match a with AS s => s | AZ _ => None end.

Definition setter (c : cfg) (k : sk) (v : arg) : setting -> sres :=
  match k with
  | KInt => fun s => n_set_int (auto c) s (arg_z v)
  | KInt64 => fun s => n_set_int64 (auto c) s (arg_z v)
  | KFloat => fun s => n_set_float (auto c) s (arg_z v)
  | KBool => fun s => n_set_bool s (arg_z v)
  | KString => fun s => n_set_string s (arg_s v)
  end.

(* direct getters config_setting_get_<k>: failure gives 0 / 0.0 / NULL *)
Definition getter (c : cfg) (k : sk) (s : setting) : ret :=
  match k with
  | KInt => match n_get_int (auto c) s with GOk v => RInt v | GFail => RInt 0 | GUnspec => RUnspec end
  | KInt64 => match n_get_int64 (auto c) s with GOk v => RInt v | GFail => RInt 0 | GUnspec => RUnspec end
  | KFloat => match n_get_float (auto c) s with GOk v => RFloat v | GFail => RFloat 0 | GUnspec => RUnspec end
  | KBool => RInt (n_get_bool s)
  | KString => RStr (n_get_string s)
  end.

(* config_setting_get_<k>_elem on an element that exists: int/int64/float go through the
   direct getter; bool and string test the type themselves (same result) *)
Definition elem_getter (c : cfg) (k : sk) (o : option setting) : ret :=
  match o with
  | Some e => getter c k e
  | None => match k with
            | KInt | KInt64 | KBool => RInt 0
            | KFloat => RFloat 0
            | KString => RStr None
            end
  end.

(* typed lookups config_setting_lookup_<k> / config_lookup_<k> on the member found (or not) *)
Definition typed_look (c : cfg) (k : sk) (o : option setting) : ret :=
  match o with
  | None => RLook 0 None
  | Some m =>
      match k with
      | KInt => match n_get_int (auto c) m with
                | GOk v => RLook 1 (Some (RInt v)) | GFail => RLook 0 None | GUnspec => RUnspec end
      | KInt64 => match n_get_int64 (auto c) m with
                  | GOk v => RLook 1 (Some (RInt v)) | GFail => RLook 0 None | GUnspec => RUnspec end
      | KFloat => match n_get_float (auto c) m with
                  | GOk v => RLook 1 (Some (RFloat v)) | GFail => RLook 0 None | GUnspec => RUnspec end
      | KBool => match s_pl m with
                 | PBool z => RLook 1 (Some (RInt z)) | _ => RLook 0 None end
      | KString => match s_pl m with
                   | PStr o => RLook 1 (Some (RStr o)) | _ => RLook 0 None end
      end
  end.

Definition kid_at (s : setting) (o : option nat) : option setting :=
  match o with Some i => nth_error (s_kids s) i | None => None end.

Definition kind_bits (s : setting) : Z :=
  let t := s_ty s in
  (if ty_eqb t TGroup then 1 else 0) + (if ty_eqb t TArray then 2 else 0)
  + (if ty_eqb t TList then 4 else 0)
  + (match t with TInt | TInt64 | TFloat => 8 | _ => 0 end)
  + (if ty_is_scalar t then 16 else 0) + (if ty_is_aggregate t then 32 else 0).

(* run [f] on the setting addressed by [p]; [f] returns the replacement (None = unchanged) *)
Definition at_node (c : cfg) (p : ipath)
           (f : setting -> option setting * ret * list event) : cfg * ret * list event :=
  match get_at p (c_root c) with
  | None => (c, RBadHandle, [])
  | Some s =>
      let '(o, r, ev) := f s in
      match o with
      | Some s' => (set_root c (upd_at p (fun _ => s') (c_root c)), r, ev)
      | None => (c, r, ev)
      end
  end.

Definition clear_cfg (c : cfg) : cfg * list event :=
  (set_files (set_root c new_root) [], dlog c (c_root c)).

Definition api_step (c : cfg) (o : aop) : cfg * ret * list event :=
  match o with
  | OInit => (cfg_init, RUnit, [])
  | OClear => let '(c', ev) := clear_cfg c in (c', RUnit, ev)
  | ODestroy =>
      (* destroys the tree (destructor still registered), frees names and include_dir,
         zeroes the struct; the model keeps an initialised empty configuration in its place,
         scripts re-run init afterwards *)
      (mkCfg new_root 0 0 0 0 None IncNull false None err0 [], RUnit, dlog c (c_root c))
  | OSetOptions v => (set_options c (to_int32 v), RUnit, [])
  | OSetOption bit flag =>
      (set_options c (if flag =? 0 then Z.land (c_options c) (Z.lnot bit)
                      else Z.lor (c_options c) bit), RUnit, [])
  | OGetOption bit => (c, RInt (if get_option c bit then 1 else 0), [])
  | OSetTab n => let w := to_uint16 n in (set_tab c (if w <=? 15 then w else 15), RUnit, [])
  | OSetPrec n => (set_prec c (to_uint16 n), RUnit, [])
  | OSetDefFmt n => (set_deffmt c (to_uint16 n), RUnit, [])
  | OSetIncDir d => (set_incdir c d, RUnit, [])
  | OSetIncFn f => (set_incfn c f, RUnit, [])
  | OSetDtor b => (set_dtor c b, RUnit, [])
  | OSetCHook h => (set_chook c h, RUnit, [])
  | OHook p h => at_node c p (fun s => (Some (set_hook s h), RUnit, []))
  | OAdd p name tcode =>
      at_node c p (fun s =>
        match n_add (get_option c OPT_OVERRIDES) s name tcode with
        | Some (s', i, victim) =>
            (Some s', RNode (Some (p ++ [i])),
             match victim with Some v => dlog c v | None => [] end)
        | None => (None, RNode None, [])
        end)
  | ORemove p path =>
      at_node c p (fun s =>
        match path with
        | None => (None, RInt 0, [])
        | Some pa =>
            match n_remove s pa with
            | Some (s', victim) => (Some s', RInt 1, dlog c victim)
            | None => (None, RInt 0, [])
            end
        end)
  | ORemoveElem p idx =>
      at_node c p (fun s =>
        match n_remove_elem s (to_uint32 idx) with
        | Some (s', victim) => (Some s', RInt 1, dlog c victim)
        | None => (None, RInt 0, [])
        end)
  | OSet k p v =>
      at_node c p (fun s =>
        match setter c k v s with
        | SOk s' => (Some s', RInt 1, [])
        | SFail => (None, RInt 0, [])
        | SUnspec => (None, RUnspec, [])
        end)
  | OSetElem k p idx v =>
      at_node c p (fun s =>
        match n_set_elem (sk_ty k) (setter c k v) s idx with
        | EOk s' i => (Some s', RNode (Some (p ++ [i])), [])
        | EFail => (None, RNode None, [])
        | EUnspec => (None, RUnspec, [])
        end)
  | OSetFormat p f =>
      at_node c p (fun s =>
        match n_set_format s (to_uint16 f) with
        | SOk s' => (Some s', RInt 1, [])
        | _ => (None, RInt 0, [])
        end)
  | OGet k p => at_node c p (fun s => (None, getter c k s, []))
  | OGetElem k p idx =>
      at_node c p (fun s => (None, elem_getter c k (kid_at s (get_elem s (to_uint32 idx))), []))
  | OGetFormat p => at_node c p (fun s => (None, RInt (n_get_format (c_deffmt c) s), []))
  | OMLook k p name =>
      at_node c p (fun s => (None, typed_look c k (kid_at s (get_member s name)), []))
  | OPLook k path =>
      (c, typed_look c k (match lookup (c_root c) path with
                          | Some rel => get_at rel (c_root c) | None => None end), [])
  | OLookup p path =>
      at_node c p (fun s =>
        (None, RNode (match lookup s path with Some rel => Some (p ++ rel) | None => None end), []))
  | OCLookup path => (c, RNode (lookup (c_root c) path), [])
  | OMember p name =>
      at_node c p (fun s =>
        (None, RNode (match get_member s name with Some i => Some (p ++ [i]) | None => None end), []))
  | OElem p idx =>
      at_node c p (fun s =>
        (None, RNode (match get_elem s (to_uint32 idx) with
                      | Some i => Some (p ++ [i]) | None => None end), []))
  | OLength p => at_node c p (fun s => (None, RInt (n_length s), []))
  | OIndex p =>
      at_node c p (fun _ =>
        (None, RInt (match rev p with [] => -1 | i :: _ => Z.of_nat i end), []))
  | OName p => at_node c p (fun s => (None, RStr (s_name s), []))
  | OType p => at_node c p (fun s => (None, RInt (ty_code (s_ty s)), []))
  | OIsRoot p => at_node c p (fun _ => (None, RInt (match p with [] => 1 | _ => 0 end), []))
  | OParent p =>
      at_node c p (fun _ => (None, RNode (match p with [] => None | _ => Some (removelast p) end), []))
  | OIsKind p => at_node c p (fun s => (None, RInt (kind_bits s), []))
  end.

(* a history of operations from a state *)
Definition step_cfg (c : cfg) (o : aop) : cfg := fst (fst (api_step c o)).
Definition run_ops (c : cfg) (ops : list aop) : cfg := fold_left step_cfg ops c.
