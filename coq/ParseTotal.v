(* ParseTotal.v — the parser model is total on every token stream that ends with an end-of-input or an error
   token (what the scanner delivers): p_config answers POk or PErr, never PStuck (the fuel it takes always
   suffices and no action meets an impossible tree) and never PFatal (it never reads past the stopping token).
   Lemmas behind Properties_C03 / Properties_C02. *)
From Coq Require Import List ZArith NArith Bool Lia.
Import ListNotations.
From LC Require Import Base BaseFacts Tree Fp Lookup Api ApiStep ScanAction Tokens Lexer Parser
  TreeFacts ApiFacts GrammarFacts ParseWrite.
Local Open Scope Z_scope.

(* ---- the stopping tokens ---- *)
Definition is_stop (t : token) : bool := match t with TkEOF | TkError => true | _ => false end.
Definition has_stop (l : list token) : Prop := existsb is_stop l = true.

Lemma has_stop_nonempty l : has_stop l -> l <> [].
Proof. intros H ->. discriminate H. Qed.

Lemma has_stop_tl t r : has_stop (t :: r) -> is_stop t = false -> has_stop r.
Proof. unfold has_stop. cbn [existsb]. intros H E. rewrite E in H. exact H. Qed.

(* ---- types along the path to the setting being filled ---- *)
Definition prefix_of (q p : ipath) : Prop := exists x, p = q ++ x.

Definition tyskel (parent : ipath) (r r' : setting) : Prop :=
  forall q A, prefix_of q parent -> get_at q r = Some A -> exists A', get_at q r' = Some A' /\ s_ty A' = s_ty A.

Lemma tyskel_refl parent r : tyskel parent r r.
Proof. intros q A _ H. exists A. auto. Qed.

Lemma tyskel_trans parent r1 r2 r3 : tyskel parent r1 r2 -> tyskel parent r2 r3 -> tyskel parent r1 r3.
Proof.
  intros H1 H2 q A Hq G. destruct (H1 q A Hq G) as (A' & G' & E'). destruct (H2 q A' Hq G') as (A'' & G'' & E'').
  exists A''. split; [exact G'' | congruence].
Qed.

Lemma tyskel_weaken parent x r r' : tyskel (parent ++ x) r r' -> tyskel parent r r'.
Proof.
  intros H q A (y & ->) G. apply (H q A); [|exact G]. exists (y ++ x). rewrite app_assoc. reflexivity.
Qed.

Lemma s_ty_upd_at_cons i x f A : s_ty (upd_at (i :: x) f A) = s_ty A.
Proof. cbn [upd_at]. apply s_ty_set_kids. Qed.

(* an update at or below [parent] keeps the types on the way down to [parent] (when it is AT parent: if it keeps
   parent's own type) *)
Lemma tyskel_upd parent x f r :
  (x = [] -> forall P, get_at parent r = Some P -> s_ty (f P) = s_ty P) ->
  tyskel parent r (upd_at (parent ++ x) f r).
Proof.
  intros Hx q A (y & ->) G. rewrite <- app_assoc. rewrite (get_at_upd_at_prefix q (y ++ x) f r A G).
  eexists. split; [reflexivity|]. destruct (y ++ x) as [|i z] eqn:E.
  - apply app_eq_nil in E as [-> ->]. cbn [upd_at]. apply Hx; [reflexivity|]. rewrite app_nil_r. exact G.
  - apply s_ty_upd_at_cons.
Qed.

Lemma tyskel_get parent r r' P : tyskel parent r r' -> get_at parent r = Some P ->
  exists P', get_at parent r' = Some P' /\ s_ty P' = s_ty P.
Proof. intros H G. apply (H parent P); [exists []; rewrite app_nil_r; reflexivity | exact G]. Qed.

(* ---- where a value goes ---- *)
Definition ctx_inv (r : setting) (parent : ipath) (cur : option ipath) (simple : bool) : Prop :=
  exists P, get_at parent r = Some P /\
    match cur with
    | None => s_ty P = TList \/ (s_ty P = TArray /\ simple = true)
    | Some sp => s_ty P = TGroup /\ exists i M, sp = parent ++ [i] /\ nth_error (s_kids P) i = Some M
    end.

Lemma ctx_inv_skel r r' parent simple : ctx_inv r parent None simple -> tyskel parent r r' -> ctx_inv r' parent None simple.
Proof.
  intros (P & G & H) Hs. destruct (tyskel_get _ _ _ _ Hs G) as (P' & G' & E). exists P'. split; [exact G'|]. rewrite E. exact H.
Qed.

Lemma len_ptoks_shift s t r : ptoks s = t :: r -> length (ptoks (shift s)) = length r.
Proof. intros H. rewrite ptoks_shift, H. reflexivity. Qed.

Section Total.
  Variable ov : bool.

  (* ---- strings never run out of fuel ---- *)
  Lemma p_string_total : forall fuel s acc,
    (length (ptoks s) + 1 <= fuel)%nat -> has_stop (ptoks s) ->
    exists v s', p_string fuel s acc = (Some v, s') /\ p_root s' = p_root s /\ has_stop (ptoks s') /\
                 (length (ptoks s') <= length (ptoks s))%nat.
  Proof.
    induction fuel as [|f IH]; intros s acc Hf Hs; [lia|]. cbn [p_string].
    destruct (peek s) as [[t|] s1] eqn:P.
    - destruct (peek_some _ _ _ P) as (r & H1 & H2 & H3). destruct (peek_spec _ _ _ P) as (_ & R1 & _).
      destruct t as [bv|iv|lv|hv|hlv|fb|str|nm|pt| | ].
      7: { destruct (IH (shift s1) (acc ++ str)) as (v & s' & E & R & Hst & Hl).
           { rewrite H3. rewrite H1 in Hf. cbn [length] in Hf. lia. }
           { rewrite H3. rewrite H1 in Hs. apply (has_stop_tl _ _ Hs). reflexivity. }
           exists v, s'. rewrite E. split; [reflexivity|]. split; [rewrite R, shift_root; exact R1|]. split; [exact Hst|].
           rewrite H3 in Hl. rewrite H1. cbn [length]. lia. }
      all: eexists _, s1; (split; [reflexivity|]); (split; [exact R1|]); rewrite H2, <- H1; (split; [exact Hs | lia]).
    - destruct (peek_ptoks _ _ _ P) as [Q1 Q2]. exfalso. apply (has_stop_nonempty _ Hs). destruct (ptoks s); [reflexivity | discriminate Q2].
  Qed.

  (* ---- actions ---- *)
  Lemma act_scalar_total s parent cur simple sc s' :
    ctx_inv (p_root s) parent cur simple -> act_scalar s parent cur sc = Some s' ->
    tyskel parent (p_root s) (p_root s') /\ ptoks s' = ptoks s.
  Proof.
    intros (P & G & Hc) H. split; [|exact (act_scalar_ptoks _ _ _ _ _ H)].
    unfold act_scalar in H. destruct sc as [[t st] fmt]. unfold in_agg, ty_at in H. rewrite G in H.
    destruct cur as [sp|].
    - destruct Hc as (Hty & i & M & -> & GM). rewrite Hty in H. injection H as <-. cbn [p_root set_proot].
      apply tyskel_upd. intros E. discriminate E.
    - assert (Hag : match s_ty P with TArray | TList => true | _ => false end = true)
        by (destruct Hc as [-> | [-> _]]; reflexivity).
      rewrite Hag in H. destruct (n_set_elem t st P (-1)) eqn:En; try discriminate H. injection H as <-.
      cbn [p_root set_proot]. rewrite <- (app_nil_r parent) at 2. apply tyskel_upd. intros _ P0 G0.
      destruct (n_set_elem_spec _ _ _ _ _ _ En) as [(_ & _ & _ & e & _ & ->) | (_ & _ & e & e' & _ & _ & ->)];
        rewrite !s_ty_set_kids; rewrite G in G0; injection G0 as <-; reflexivity.
  Qed.

  Lemma act_open_total s parent cur k :
    ctx_inv (p_root s) parent cur false ->
    exists s1 np Q, act_open ov s parent cur k = Some (s1, np) /\ ptoks s1 = ptoks s /\
                    tyskel parent (p_root s) (p_root s1) /\ prefix_of parent np /\
                    get_at np (p_root s1) = Some Q /\ s_pl Q = aggk_pl k.
  Proof.
    intros (P & G & Hc). destruct cur as [sp|].
    - destruct Hc as (Hty & i & M & -> & GM).
      assert (HP : s_pl P = PGroup) by (unfold s_ty in Hty; destruct (s_pl P); try discriminate; reflexivity).
      rewrite (act_open_member ov s parent P i M k G HP GM).
      eexists _, _, (set_pl M (aggk_pl k)). split; [reflexivity|]. split; [reflexivity|]. cbn [p_root set_proot].
      split; [rewrite <- (app_nil_r parent) at 2; apply tyskel_upd; intros _ P0 G0; rewrite G in G0; injection G0 as <-; apply s_ty_set_kids|].
      split; [exists [i]; reflexivity|]. split; [|apply s_pl_set_pl].
      apply (get_child parent (set_kids P (list_upd i (fun _ => set_pl M (aggk_pl k)) (s_kids P))));
        [exact (get_at_upd_at_same parent (fun _ => set_kids P (list_upd i (fun _ => set_pl M (aggk_pl k)) (s_kids P))) _ P G)|].
      rewrite s_kids_set_kids. apply (nth_error_list_upd_hit i _ _ M GM).
    - destruct Hc as [Hty | [_ Hf]]; [|discriminate Hf].
      assert (HP : s_pl P = PList) by (unfold s_ty in Hty; destruct (s_pl P); try discriminate; reflexivity).
      destruct (act_open_elem ov s parent P k G HP) as (Q0 & Eo & Qn & Qp & Qk & Qf). rewrite Eo.
      eexists _, _, Q0. split; [reflexivity|]. split; [reflexivity|]. cbn [p_root set_proot].
      split; [rewrite <- (app_nil_r parent) at 2; apply tyskel_upd; intros _ P0 G0; rewrite G in G0; injection G0 as <-; apply s_ty_set_kids|].
      split; [eexists; reflexivity|]. split; [|exact Qp].
      apply (get_child parent (set_kids P (s_kids P ++ [Q0])));
        [exact (get_at_upd_at_same parent (fun _ => set_kids P (s_kids P ++ [Q0])) _ P G)|].
      rewrite s_kids_set_kids, nth_error_app2 by lia. rewrite Nat.sub_diag. reflexivity.
  Qed.

  Lemma act_name_total s parent nm s2 sp P :
    get_at parent (p_root s) = Some P -> s_ty P = TGroup -> act_name ov s parent nm = Some (s2, sp) ->
    ptoks s2 = ptoks s /\ tyskel parent (p_root s) (p_root s2) /\ ctx_inv (p_root s2) parent (Some sp) false.
  Proof.
    intros G Hty H. split; [exact (act_name_ptoks _ _ _ _ _ _ H)|].
    unfold act_name in H. rewrite G in H.
    destruct (n_add ov P (Some nm) 0) as [[[P' i] vic]|] eqn:En; [|discriminate H]. injection H as <- <-.
    cbn [p_root set_proot].
    assert (HP' : s_ty P' = TGroup /\ (i < length (s_kids P'))%nat).
    { destruct (n_add_spec _ _ _ _ _ _ _ En) as (t & _ & Hi & Hv). cbv zeta in Hv.
      destruct vic as [v|]; [destruct Hv as (_ & j & _ & _ & ->) | destruct Hv as (_ & ->)];
        rewrite s_ty_set_kids, s_kids_set_kids in *; rewrite app_length in *; cbn [length] in *; split; try exact Hty; lia. }
    destruct HP' as [Hty' Hi].
    set (P'' := set_kids P' (list_upd i (fun k => set_pos k (p_line s) (p_file s)) (s_kids P'))).
    split.
    - rewrite <- (app_nil_r parent) at 2. apply tyskel_upd. intros _ P0 G0. rewrite G in G0. injection G0 as <-.
      unfold P''. rewrite s_ty_set_kids, Hty', Hty. reflexivity.
    - exists P''. split; [exact (get_at_upd_at_same parent (fun _ => P'') _ P G)|].
      split; [unfold P''; rewrite s_ty_set_kids; exact Hty'|].
      destruct (nth_error (s_kids P') i) as [M|] eqn:EM; [|apply nth_error_None in EM; lia].
      exists i, (set_pos M (p_line s) (p_file s)). split; [reflexivity|].
      unfold P''. rewrite s_kids_set_kids. exact (nth_error_list_upd_same _ (fun k => set_pos k (p_line s) (p_file s)) _ _ EM).
  Qed.
  Lemma expect_total s p : has_stop (ptoks s) ->
    match expect s p with
    | POk s' => p_root s' = p_root s /\ has_stop (ptoks s') /\ (length (ptoks s') < length (ptoks s))%nat
    | PErr _ _ => True
    | _ => False
    end.
  Proof.
    intros Hs. unfold expect. destruct (peek s) as [[t|] s1] eqn:P.
    - destruct (peek_some _ _ _ P) as (r & H1 & H2 & H3). destruct (peek_spec _ _ _ P) as (_ & R1 & _).
      destruct t as [bv|iv|lv|hv|hlv|fb|str|nm|pt| | ]; try exact I.
      destruct (match p, pt with
                | TEquals, TEquals | TArrayEnd, TArrayEnd | TListEnd, TListEnd | TGroupEnd, TGroupEnd => true
                | _, _ => false end); [|exact I].
      split; [rewrite shift_root; exact R1|]. rewrite H3. split; [rewrite H1 in Hs; apply (has_stop_tl _ _ Hs); reflexivity | rewrite H1; cbn; lia].
    - destruct (peek_ptoks _ _ _ P) as [_ Q2]. apply (has_stop_nonempty _ Hs). destruct (ptoks s); [reflexivity | discriminate Q2].
  Qed.

  Lemma Dvalue_nonempty simple v : Dvalue simple v -> v <> [].
  Proof. intros H. inversion H; subst; try discriminate. assumption. Qed.

  (* ---- the outcomes that are not excluded ---- *)
  Definition good (parent : ipath) (s : pst) (res : pres) : Prop :=
    match res with
    | POk s' => tyskel parent (p_root s) (p_root s') /\ has_stop (ptoks s')
    | PErr _ _ => True
    | _ => False
    end.

  Notation L s := (length (ptoks s)).

  Definition T_value (f : nat) : Prop := forall s parent cur simple,
    (3 * L s + 2 <= f)%nat -> has_stop (ptoks s) -> ctx_inv (p_root s) parent cur simple ->
    good parent s (p_value ov f s parent cur simple).
  Definition T_agg (f : nat) : Prop := forall s parent cur k,
    (3 * L s + 4 <= f)%nat -> has_stop (ptoks s) -> ctx_inv (p_root s) parent cur false ->
    good parent s (p_agg ov f s parent cur k).
  Definition T_elems (f : nat) : Prop := forall s parent simple first,
    (3 * L s + 3 <= f)%nat -> has_stop (ptoks s) -> ctx_inv (p_root s) parent None simple ->
    good parent s (p_elems ov f s parent simple first).
  Definition T_settings (f : nat) : Prop := forall s parent,
    (3 * L s + 1 <= f)%nat -> has_stop (ptoks s) ->
    (exists P, get_at parent (p_root s) = Some P /\ s_ty P = TGroup) ->
    good parent s (p_settings ov f s parent).

  Lemma good_root parent s s0 res : p_root s0 = p_root s -> good parent s0 res -> good parent s res.
  Proof. intros E. unfold good. destruct res; auto. rewrite E. auto. Qed.

  Lemma peek_stop s : has_stop (ptoks s) ->
    exists t s1 r, peek s = (Some t, s1) /\ ptoks s = t :: r /\ ptoks s1 = t :: r /\ ptoks (shift s1) = r /\ p_root s1 = p_root s.
  Proof.
    intros Hs. destruct (peek s) as [[t|] s1] eqn:P.
    - destruct (peek_some _ _ _ P) as (r & H1 & H2 & H3). destruct (peek_spec _ _ _ P) as (_ & R1 & _). exists t, s1, r. auto 6.
    - destruct (peek_ptoks _ _ _ P) as [_ Q2]. exfalso. apply (has_stop_nonempty _ Hs). destruct (ptoks s); [reflexivity | discriminate Q2].
  Qed.

  Theorem parser_total : forall f, T_value f /\ T_agg f /\ T_elems f /\ T_settings f.
  Proof.
    induction f as [|f (IHv & IHa & IHe & IHs)].
    { unfold T_value, T_agg, T_elems, T_settings. repeat split; intros; lia. }
    destruct (parser_sound ov f) as (Sv & Sa & Se & Ss).
    assert (Hv : T_value (S f)).
    { intros s parent cur simple Hf Hst Hc. rewrite p_value_S.
      destruct (peek_stop s Hst) as (t & s1 & r & P & H1 & H2 & H3 & R1). rewrite P.
      assert (Hc1 : ctx_inv (p_root (shift s1)) parent cur simple) by (rewrite shift_root, R1; exact Hc).
      assert (Hsc : forall sc, is_stop t = false ->
                good parent s (match act_scalar (shift s1) parent cur sc with
                               | Some s3 => POk s3 | None => PErr PErrMismatch (shift s1) end)).
      { intros sc Hns. destruct (act_scalar (shift s1) parent cur sc) as [s3|] eqn:A; [|exact I].
        destruct (act_scalar_total _ _ _ _ _ _ Hc1 A) as [Hk Ht]. cbn [good]. rewrite shift_root, R1 in Hk.
        split; [exact Hk|]. rewrite Ht, H3. rewrite H1 in Hst. exact (has_stop_tl _ _ Hst Hns). }
      assert (Hag : forall k, is_stop t = false -> simple = false -> good parent s (p_agg ov f (shift s1) parent cur k)).
      { intros k Hns ->. apply (good_root parent s (shift s1)); [rewrite shift_root; exact R1|].
        apply IHa; [rewrite H3; rewrite H1 in Hf; cbn [length] in Hf; lia | rewrite H3; rewrite H1 in Hst; exact (has_stop_tl _ _ Hst Hns) | exact Hc1]. }
      destruct t as [bv|iv|lv|hv|hlv|fb|str|nm|pt| | ]; try exact I; try (apply Hsc; reflexivity).
      - (* string *)
        destruct (p_string_total f s1 []) as (v & s2 & E & R2 & Hst2 & Hl2).
        { rewrite H2, <- H1. lia. }
        { rewrite H2, <- H1. exact Hst. }
        rewrite E. destruct (act_scalar s2 parent cur (string_scalar v)) as [s3|] eqn:A; [|exact I].
        assert (Hc2 : ctx_inv (p_root s2) parent cur simple) by (rewrite R2, R1; exact Hc).
        destruct (act_scalar_total _ _ _ _ _ _ Hc2 A) as [Hk Ht]. cbn [good]. rewrite R2, R1 in Hk.
        split; [exact Hk | rewrite Ht; exact Hst2].
      - (* punctuation *)
        destruct pt; try exact I; destruct simple; try exact I; apply Hag; reflexivity. }
    assert (Ha : T_agg (S f)).
    { intros s parent cur k Hf Hst Hc. rewrite p_agg_S.
      destruct (act_open_total s parent cur k Hc) as (s1 & np & Q & A & Ht1 & Hk1 & (x & Hnp) & GQ & HQ). rewrite A. cbv zeta.
      assert (Hclose : forall s2 cl, tyskel np (p_root s1) (p_root s2) -> has_stop (ptoks s2) -> good parent s (expect s2 cl)).
      { intros s2 cl Hk2 Hst2. pose proof (expect_total s2 cl Hst2) as He. destruct (expect s2 cl) as [s3|e s3|s3|s3]; try exact I; try contradiction.
        destruct He as (R3 & Hst3 & _). cbn [good]. split; [|exact Hst3]. rewrite R3.
        apply (tyskel_trans parent _ (p_root s1)); [exact Hk1|]. subst np. apply (tyskel_weaken parent x). exact Hk2. }
      destruct k.
      - assert (G : good np s1 (p_elems ov f s1 np true true)).
        { apply IHe; [rewrite Ht1; lia | rewrite Ht1; exact Hst|]. exists Q. split; [exact GQ|]. right. split; [|reflexivity].
          unfold s_ty. rewrite HQ. reflexivity. }
        destruct (p_elems ov f s1 np true true) as [s2|e s2|s2|s2]; try exact I; try contradiction. destruct G as [G1 G2]. apply Hclose; assumption.
      - assert (G : good np s1 (p_elems ov f s1 np false true)).
        { apply IHe; [rewrite Ht1; lia | rewrite Ht1; exact Hst|]. exists Q. split; [exact GQ|]. left. unfold s_ty. rewrite HQ. reflexivity. }
        destruct (p_elems ov f s1 np false true) as [s2|e s2|s2|s2]; try exact I; try contradiction. destruct G as [G1 G2]. apply Hclose; assumption.
      - assert (G : good np s1 (p_settings ov f s1 np)).
        { apply IHs; [rewrite Ht1; lia | rewrite Ht1; exact Hst|]. exists Q. split; [exact GQ|]. unfold s_ty. rewrite HQ. reflexivity. }
        destruct (p_settings ov f s1 np) as [s2|e s2|s2|s2]; try exact I; try contradiction. destruct G as [G1 G2]. apply Hclose; assumption. }
    assert (He : T_elems (S f)).
    { intros s parent simple first Hf Hst Hc. rewrite p_elems_S.
      destruct (peek_stop s Hst) as (t & s1 & r & P & H1 & H2 & H3 & R1). rewrite P.
      (* a value at state sa (same root as s), then the rest of the list *)
      assert (Hval : forall sa, p_root sa = p_root s -> has_stop (ptoks sa) -> (3 * L sa + 3 <= S f)%nat ->
                good parent s (match p_value ov f sa parent None simple with
                               | POk s2 => p_elems ov f s2 parent simple false | r => r end)).
      { intros sa Ra Hsa Hfa.
        assert (G : good parent sa (p_value ov f sa parent None simple)) by (apply IHv; [lia | exact Hsa | rewrite Ra; exact Hc]).
        destruct (p_value ov f sa parent None simple) as [s2|e s2|s2|s2] eqn:V; try exact I; try contradiction.
        destruct G as [G1 G2]. destruct (Sv _ _ _ _ _ V) as (v & Ev & Dv). pose proof (Dvalue_nonempty _ _ Dv) as Hne.
        assert (Hl : (L s2 < L sa)%nat) by (rewrite Ev, app_length; destruct v; [contradiction | cbn; lia]).
        rewrite Ra in G1.
        assert (G' : good parent s2 (p_elems ov f s2 parent simple false)).
        { apply IHe; [lia | exact G2 | apply (ctx_inv_skel (p_root s)); assumption]. }
        destruct (p_elems ov f s2 parent simple false) as [s3|e s3|s3|s3]; try exact I; try contradiction.
        destruct G' as [G3 G4]. split; [apply (tyskel_trans parent _ (p_root s2)); assumption | exact G4]. }
      assert (Hs1 : has_stop (ptoks s1)) by (rewrite H2, <- H1; exact Hst).
      assert (Hstay : good parent s (POk s1)) by (split; [rewrite R1; apply tyskel_refl | exact Hs1]).
      destruct first.
      - destruct (is_value_start simple t); [|exact Hstay].
        apply Hval; [exact R1 | exact Hs1 | rewrite H2, <- H1; exact Hf].
      - destruct t as [bv|iv|lv|hv|hlv|fb|str|nm|pt| | ]; try exact Hstay. destruct pt; try exact Hstay.
        cbv zeta.
        assert (Hs2 : has_stop (ptoks (shift s1))) by (rewrite H3; rewrite H1 in Hst; apply (has_stop_tl _ _ Hst); reflexivity).
        destruct (peek_stop (shift s1) Hs2) as (t2 & s3 & r2 & P2 & K1 & K2 & K3 & R3). rewrite P2.
        assert (R3' : p_root s3 = p_root s) by (rewrite R3, shift_root; exact R1).
        assert (Hs3 : has_stop (ptoks s3)) by (rewrite K2, <- K1; exact Hs2).
        assert (Hl3 : (L s3 + 1 = L s)%nat) by (rewrite K2, <- K1, H3, H1; cbn; lia).
        destruct (is_value_start simple t2).
        + apply Hval; [exact R3' | exact Hs3 | lia].
        + apply (good_root parent s s3 _ R3'). apply IHe; [lia | exact Hs3 | rewrite R3'; exact Hc]. }
    assert (Hs : T_settings (S f)).
    { intros s parent Hf Hst (P0 & G0 & Hty0). rewrite p_settings_S.
      destruct (peek_stop s Hst) as (t & s1 & r & P & H1 & H2 & H3 & R1). rewrite P.
      assert (Hs1 : has_stop (ptoks s1)) by (rewrite H2, <- H1; exact Hst).
      assert (Hstay : good parent s (POk s1)) by (split; [rewrite R1; apply tyskel_refl | exact Hs1]).
      destruct t as [bv|iv|lv|hv|hlv|fb|str|nm|pt| | ]; try exact Hstay.
      cbv zeta.
      assert (Hs2 : has_stop (ptoks (shift s1))) by (rewrite H3; rewrite H1 in Hst; apply (has_stop_tl _ _ Hst); reflexivity).
      destruct (act_name ov (shift s1) parent nm) as [[s2 sp]|] eqn:A; [|exact I].
      destruct (act_name_total (shift s1) parent nm s2 sp P0 ltac:(rewrite shift_root, R1; exact G0) Hty0 A) as (T2 & K2 & C2).
      rewrite shift_root, R1 in K2.
      pose proof (expect_total s2 TEquals ltac:(rewrite T2; exact Hs2)) as Hx.
      destruct (expect s2 TEquals) as [s3|e s3|s3|s3]; try exact I; try contradiction.
      destruct Hx as (R3 & Hs3 & Hl3).
      assert (G : good parent s3 (p_value ov f s3 parent (Some sp) false)).
      { apply IHv; [rewrite T2, H3 in Hl3; rewrite H1 in Hf; cbn [length] in Hf; lia | exact Hs3 | rewrite R3; exact C2]. }
      destruct (p_value ov f s3 parent (Some sp) false) as [s4|e s4|s4|s4] eqn:V; try exact I; try contradiction.
      destruct G as [G1 G2]. rewrite R3 in G1.
      destruct (Sv _ _ _ _ _ V) as (v & Ev & Dv). pose proof (Dvalue_nonempty _ _ Dv) as Hne.
      assert (Hl4 : (L s4 < L s3)%nat) by (rewrite Ev, app_length; destruct v; [contradiction | cbn; lia]).
      set (s6 := match peek s4 with
                 | (Some (TkP TSemicolon), s5) => shift s5
                 | (Some (TkP TComma), s5) => shift s5
                 | (_, s5) => s5 end).
      assert (H6 : p_root s6 = p_root s4 /\ has_stop (ptoks s6) /\ (L s6 <= L s4)%nat).
      { unfold s6. destruct (peek_stop s4 G2) as (t4 & s5 & r4 & P4 & J1 & J2 & J3 & R5). rewrite P4.
        assert (Hkeep : p_root s5 = p_root s4 /\ has_stop (ptoks s5) /\ (L s5 <= L s4)%nat)
          by (split; [exact R5|]; rewrite J2, <- J1; split; [exact G2 | lia]).
        assert (Hshift : is_stop t4 = false -> p_root (shift s5) = p_root s4 /\ has_stop (ptoks (shift s5)) /\ (L (shift s5) <= L s4)%nat).
        { intros Hns. split; [rewrite shift_root; exact R5|]. rewrite J3. split; [rewrite J1 in G2; exact (has_stop_tl _ _ G2 Hns) | rewrite J1; cbn; lia]. }
        destruct t4 as [bv|iv|lv|hv|hlv|fb|str|nm4|pt4| | ]; try exact Hkeep. destruct pt4; try exact Hkeep; apply Hshift; reflexivity. }
      destruct H6 as (R6 & Hs6 & Hl6).
      assert (Kall : tyskel parent (p_root s) (p_root s4)) by (apply (tyskel_trans parent _ (p_root s2)); assumption).
      destruct (tyskel_get _ _ _ _ Kall G0) as (P4 & G4 & E4).
      assert (G' : good parent s6 (p_settings ov f s6 parent)).
      { apply IHs; [rewrite T2, H3 in Hl3; rewrite H1 in Hf; cbn [length] in Hf; lia | exact Hs6 |].
        exists P4. rewrite R6. split; [exact G4 | rewrite E4; exact Hty0]. }
      destruct (p_settings ov f s6 parent) as [s7|e s7|s7|s7]; try exact I; try contradiction.
      destruct G' as [G3 G5]. rewrite R6 in G3. split; [apply (tyskel_trans parent _ (p_root s4)); assumption | exact G5]. }
    auto.
  Qed.

  (* configuration: on a stream that contains its stopping token the answer is POk or PErr *)
  Theorem p_config_total s :
    has_stop (ptoks s) -> s_ty (p_root s) = TGroup ->
    match p_config ov s with POk _ | PErr _ _ => True | _ => False end.
  Proof.
    intros Hst Hty. unfold p_config.
    destruct (parser_total (S (4 * length (p_toks s)))) as (_ & _ & _ & Hs).
    assert (G : good [] s (p_settings ov (S (4 * length (p_toks s))) s [])).
    { apply Hs; [unfold ptoks; rewrite map_length; lia | exact Hst | exists (p_root s); split; [reflexivity | exact Hty]]. }
    destruct (p_settings ov _ s []) as [s1|e s1|s1|s1]; try exact I; try contradiction.
    destruct G as [_ G2]. destruct (peek_stop s1 G2) as (t & s2 & r & P & _). rewrite P. destruct t; exact I.
  Qed.
End Total.
