(* FlexBuf.v — the buffer machinery of the flex 2.6.4 skeleton as compiled into lib/scanner.c (yylex's matching loop with
   the YY_END_OF_BUFFER action, yy_get_next_buffer, yy_get_previous_state, yy_try_NUL_trans, yy_scan_bytes,
   yy_create_buffer), over the engine of FlexEngine.v.  Definitions only; the facts are in FlexBufFacts.v.

   A buffer is its valid bytes yy_ch_buf[0 .. yy_n_chars) as a list; the two end-of-buffer sentinels are at the indices
   yy_n_chars and yy_n_chars + 1 of an allocation of yy_buf_size + 2 bytes.  Sizes are unbounded naturals: the skeleton's
   int-overflow branch of the growth (new_size <= 0: grow by 1/8) needs a buffer of 2^30 bytes and is not modelled. *)
From Coq Require Import List ZArith Bool.
Import ListNotations.
From LC Require Import Base FlexEngine.
Local Open Scope Z_scope.

Inductive fstatus := BufNew | BufNormal | BufEofPending.          (* yy_buffer_status *)

Record fbstate := mkFB {
  fb_data : bytes;        (* yy_ch_buf[0 .. yy_n_chars) *)
  fb_size : nat;          (* yy_buf_size; the allocation has fb_size + 2 bytes *)
  fb_pos : nat;           (* between two calls of the matcher: yy_c_buf_p = start of the next lexeme, as an index *)
  fb_status : fstatus;
  fb_fill : bool }.       (* yy_fill_buffer: false for yy_scan_bytes buffers *)

(* the environment: the bytes not yet read, and how many bytes each future read delivers at most (at least one while
   input remains; when the list is used up every read is served in full) *)
Definition stream := (bytes * list nat)%type.

(* YY_INPUT for a non-interactive stream: fread(buf, 1, max_size, yyin); 0 = end of file *)
Definition sread (max_size : nat) (s : stream) : bytes * stream :=
  let '(inp, chunks) := s in
  let c := match chunks with [] => max_size | c :: _ => Nat.max 1 c end in
  let k := Nat.min (Nat.min max_size (length inp)) c in
  (firstn k inp, (skipn k inp, tl chunks)).

(* yy_scan_bytes: a buffer that holds the whole text and is never refilled; yy_create_buffer(yyin, size) *)
Definition fb_of_string (text : bytes) : fbstate := mkFB text (length text) 0 BufNew false.
Definition fb_of_stream (buf_size : nat) : fbstate := mkFB [] buf_size 0 BufNew true.

(* while ( num_to_read <= 0 ) yy_buf_size *= 2, with num_to_read = yy_buf_size - number_to_move - 1; None = the loop does
   not end (yy_buf_size = 0) *)
Fixpoint grow (fuel size number_to_move : nat) : option nat :=
  match fuel with
  | O => None
  | S f => if (size <=? S number_to_move)%nat then grow f (2 * size) number_to_move else Some size
  end.

Inductive eob_act :=
| EobEOF (st : fbstate) (s : stream)         (* EOB_ACT_END_OF_FILE *)
| EobContinue (st : fbstate) (s : stream)    (* EOB_ACT_CONTINUE_SCAN *)
| EobLast (st : fbstate) (s : stream)        (* EOB_ACT_LAST_MATCH *)
| EobFatal.                                  (* YY_FATAL_ERROR, or the growth loop does not end *)

Inductive fbres :=
| FbEOF                                      (* the <<EOF>> rule runs *)
| FbAct (r : option (Z * nat))               (* yy_find_action on the last accepting (rule, length); None: no state of the run
                                                accepted (the C code then acts on stale variables; the libconfig tables
                                                always accept: ScannerFacts.scanner_progress) *)
| FbFatal
| FbStuck.                                   (* out of fuel: excluded by the theorems *)

Section Buf.
  Variable T : tables.
  Variable read_buf_size : nat.               (* YY_READ_BUF_SIZE *)

  (* the bytes yytext_ptr[0 .. n) *)
  Definition lexeme (st : fbstate) (n : nat) : bytes := firstn n (skipn (fb_pos st) (fb_data st)).

  (* yy_get_next_buffer; [n] = yy_c_buf_p - yytext_ptr - 1 = number_to_move (the sentinel has been consumed) *)
  Definition get_next (st : fbstate) (n : nat) (s : stream) : eob_act :=
    if (length (fb_data st) + 1 <? fb_pos st + n + 1)%nat then EobFatal           (* end of buffer missed *)
    else if negb (fb_fill st) then (if (n =? 0)%nat then EobEOF st s else EobLast st s)
    else
      let moved := lexeme st n in
      let finish (got : bytes) (size : nat) (s' : stream) :=
        (* dead code of the skeleton, kept: if ((yy_n_chars + number_to_move) > yy_buf_size) realloc *)
        let size' := if (size <? length got + n)%nat then (length got + n + length got / 2 - 2)%nat else size in
        match got with
        | [] => if (n =? 0)%nat then EobEOF (mkFB [] size' 0 BufNew true) s'       (* yyrestart *)
                else EobLast (mkFB moved size' 0 BufEofPending true) s'
        | _ => EobContinue (mkFB (moved ++ got) size' 0 (fb_status st) true) s'
        end in
      match fb_status st with
      | BufEofPending => finish [] (fb_size st) s                                  (* no read: yy_n_chars = 0 *)
      | _ =>
          match grow (S (S n)) (fb_size st) n with
          | None => EobFatal
          | Some size =>
              let num_to_read := Nat.min (size - n - 1) read_buf_size in
              let '(got, s') := sread num_to_read s in
              finish got size s'
          end
      end.

  Definition upd_last (s : Z) (n : nat) (last : option (Z * nat)) : option (Z * nat) :=
    if accept_of T s =? 0 then last else Some (accept_of T s, n).

  (* yy_get_previous_state: re-run the automaton over the lexeme so far, recording the last accepting state *)
  Fixpoint prev_state (s : Z) (n : nat) (last : option (Z * nat)) (bs : bytes) : Z * nat * option (Z * nat) :=
    match bs with
    | [] => (s, n, last)
    | b :: r => prev_state (step_byte T s b) (S n) (upd_last s n last) r
    end.

  (* the EOB action switches a new buffer to normal *)
  Definition normalise (st : fbstate) : fbstate :=
    match fb_status st with
    | BufNew => mkFB (fb_data st) (fb_size st) (fb_pos st) BufNormal (fb_fill st)
    | _ => st
    end.

  (* yy_match ... yy_find_action, with the YY_END_OF_BUFFER action.  [s]: current state, [n] = yy_cp - yytext_ptr, [last]:
     yy_last_accepting_state/cpos as (rule, length) *)
  Fixpoint scan (fuel : nat) (sc : Z) (bol : bool) (s : Z) (n : nat) (last : option (Z * nat)) (st : fbstate) (strm : stream)
    : fbres * fbstate * stream :=
    match fuel with
    | O => (FbStuck, st, strm)
    | S f =>
        match nth_error (fb_data st) (fb_pos st + n) with
        | Some b =>
            if b =? 0 then
              (* a NUL in the data runs into the EOB action too: "this was really a NUL": the state is recomputed by
                 yy_get_previous_state, then yy_try_NUL_trans *)
              let '(s2, _, last2) := prev_state (start_state sc bol) O None (lexeme st n) in
              let last' := upd_last s2 n last2 in
              let s' := next_state T s2 (t_nul_class T) in
              if s' =? t_jam T then (FbAct last', st, strm) else scan f sc bol s' (S n) last' st strm
            else
              let last' := upd_last s n last in
              let s' := step_byte T s b in
              if s' =? t_jam T then (FbAct last', st, strm) else scan f sc bol s' (S n) last' st strm
        | None =>
            (* the sentinel: YY_END_OF_BUFFER *)
            match get_next (normalise st) n strm with
            | EobFatal => (FbFatal, st, strm)
            | EobEOF st' strm' => (FbEOF, st', strm')
            | EobContinue st' strm' =>
                let '(s2, _, last2) := prev_state (start_state sc bol) O None (lexeme st' n) in
                scan f sc bol s2 n last2 st' strm'
            | EobLast st' strm' =>
                let '(s2, _, last2) := prev_state (start_state sc bol) O None (lexeme st' n) in
                (FbAct (upd_last s2 n last2), st', strm')
            end
        end
    end.

  (* one call of the matcher, any number of refills and buffer growths included; YY_DO_BEFORE_ACTION moves yy_c_buf_p
     behind the lexeme *)
  Definition fb_match (sc : Z) (bol : bool) (st : fbstate) (strm : stream) : fbres * fbstate * stream :=
    let fuel := S (2 * length (fst strm) + (length (fb_data st) - fb_pos st)) in
    match scan fuel sc bol (start_state sc bol) O None st strm with
    | (FbAct (Some (r, len)), st', strm') =>
        (FbAct (Some (r, len)), mkFB (fb_data st') (fb_size st') (fb_pos st' + len) (fb_status st') (fb_fill st'), strm')
    | x => x
    end.

  (* yytext after a match of length len *)
  Definition fb_yytext (st : fbstate) (len : nat) : bytes := firstn len (skipn (fb_pos st - len) (fb_data st)).

  Inductive lex_end := LexEOF | LexNoRule | LexFatal | LexFuel.

  (* repeated matching; [trans sc rule] = the start condition after the action of [rule] in condition [sc] (BEGIN);
     YY_RULE_SETUP: if (yyleng > 0) yy_at_bol = (yytext[yyleng - 1] == '\n') *)
  Fixpoint fb_lex (fuel : nat) (trans : Z -> Z -> Z) (sc : Z) (bol : bool) (st : fbstate) (strm : stream)
    : list (Z * bytes) * lex_end :=
    match fuel with
    | O => ([], LexFuel)
    | S f =>
        match fb_match sc bol st strm with
        | (FbEOF, _, _) => ([], LexEOF)
        | (FbAct (Some (r, len)), st', strm') =>
            let text := fb_yytext st' len in
            let bol' := if (len =? 0)%nat then bol else last text 0 =? 10 in
            let '(toks, e) := fb_lex f trans (trans sc r) bol' st' strm' in ((r, text) :: toks, e)
        | (FbAct None, _, _) => ([], LexNoRule)
        | (FbFatal, _, _) => ([], LexFatal)
        | (FbStuck, _, _) => ([], LexFuel)
        end
    end.

  (* the reference: repeated flex_match over the whole text *)
  Fixpoint ref_lex (fuel : nat) (trans : Z -> Z -> Z) (sc : Z) (bol : bool) (text : bytes) : list (Z * bytes) * lex_end :=
    match fuel with
    | O => ([], LexFuel)
    | S f =>
        match text with
        | [] => ([], LexEOF)
        | _ =>
            match flex_match T sc bol text with
            | Some (r, len) =>
                let tx := firstn len text in
                let bol' := if (len =? 0)%nat then bol else last tx 0 =? 10 in
                let '(toks, e) := ref_lex f trans (trans sc r) bol' (skipn len text) in ((r, tx) :: toks, e)
            | None => ([], LexNoRule)
            end
        end
    end.
End Buf.
