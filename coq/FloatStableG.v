(* FloatStableG.v — render - read - render stability of a double in scientific (%g) notation: zero or a normal number,
   at most 15 significant digits, a rendering that does not round above DBL_MAX (towards C01, last clause, with
   CONFIG_OPTION_ALLOW_SCIENTIFIC_NOTATION).

   Every quantity is an integer in units of 1 / (T * 10^400):  a double of value V / T is V * 10^400, the power
   10^z (|z| <= 400) is p10 z * T with p10 z = 10^(z + 400).  No negative exponent is ever formed. *)
From Coq Require Import List ZArith Bool Lia.
Import ListNotations.
From LC Require Import Base BaseFacts Fp FloatDec RoundFacts RoundSpec FloatStable.
Local Open Scope Z_scope.

(* ------------------------------------------------------------------------------------------ *)
(* powers of ten with an offset                                                                *)
(* ------------------------------------------------------------------------------------------ *)

Definition p10 (z : Z) : Z := 10 ^ (z + 400).

Lemma p10_pos z : -400 <= z -> 0 < p10 z.
Proof. intros H. unfold p10. apply pow10_pos. lia. Qed.

Lemma p10_add a b : -400 <= a -> -400 <= b -> -400 <= a + b -> p10 (a + b) * 10 ^ 400 = p10 a * p10 b.
Proof. intros Ha Hb Hab. unfold p10. rewrite <- !pow10_add by lia. f_equal. lia. Qed.

Lemma p10_shift z k : -400 <= z -> 0 <= k -> p10 (z + k) = p10 z * 10 ^ k.
Proof. intros Hz Hk. unfold p10. rewrite <- pow10_add by lia. f_equal. lia. Qed.

Lemma p10_succ z : -400 <= z -> p10 (z + 1) = 10 * p10 z.
Proof. intros Hz. rewrite p10_shift by lia. change (10 ^ 1) with 10. ring. Qed.

Lemma p10_0 : p10 0 = 10 ^ 400.
Proof. reflexivity. Qed.

Lemma p10_le a b : -400 <= a <= b -> p10 a <= p10 b.
Proof. intros H. unfold p10. apply Z.pow_le_mono_r; lia. Qed.

(* q is (V / T) / 10^s rounded half-even *)
Definition rne10 (V s q : Z) : Prop := is_rne (V * 10 ^ 400) (p10 s * T) q.

(* 10^z <= V / T  and  V / T < 10^z *)
Definition le10 (z V : Z) : Prop := p10 z * T <= V * 10 ^ 400.
Definition lt10 (V z : Z) : Prop := V * 10 ^ 400 < p10 z * T.
Definition in_decade (V x0 : Z) : Prop := le10 x0 V /\ lt10 V (x0 + 1).

Lemma in_decade_unique V a b : -400 <= a -> -400 <= b -> in_decade V a -> in_decade V b -> a = b.
Proof.
  intros Ha Hb [A1 A2] [B1 B2]. unfold le10, lt10 in *. pose proof T_pos as PT.
  destruct (Z_lt_le_dec a b) as [L|L].
  - exfalso. pose proof (p10_le (a + 1) b ltac:(lia)). nia.
  - destruct (Z_lt_le_dec b a) as [L'|L']; [|lia]. exfalso. pose proof (p10_le (b + 1) a ltac:(lia)). nia.
Qed.

(* ------------------------------------------------------------------------------------------ *)
(* scaled_rne at any position                                                                  *)
(* ------------------------------------------------------------------------------------------ *)

Lemma div_rne_spec a b : 0 <= a -> 0 < b -> is_rne a b (div_rne a b).
Proof.
  intros Ha Hb. unfold div_rne. pose proof (Z_div_mod a b ltac:(lia)) as H.
  destruct (Z.div_eucl a b) as [q r]. destruct H as [E R]. unfold is_rne.
  destruct (2 * r ?= b) eqn:C.
  - apply Z.compare_eq in C. destruct (Z.odd q) eqn:O.
    + split; [nia|]. intros _. rewrite Z.even_add, <- Z.negb_odd, O. reflexivity.
    + split; [nia|]. intros _. rewrite <- Z.negb_odd, O. reflexivity.
  - rewrite Z.compare_lt_iff in C. split; [nia | intros E2; nia].
  - rewrite Z.compare_gt_iff in C. split; [nia | intros E2; nia].
Qed.

Lemma div_rne_nonneg a b : 0 <= a -> 0 < b -> 0 <= div_rne a b.
Proof. intros Ha Hb. apply (is_rne_nonneg a b _ Ha Hb). apply div_rne_spec; assumption. Qed.

Lemma scaled_rne_nonpos m e p : 0 <= m -> -1074 <= e -> 0 <= p ->
  is_rne (m * 2 ^ (e + 1074) * 10 ^ p) T (scaled_rne m e (- p)).
Proof.
  intros Hm He Hp. unfold scaled_rne. replace (- p <=? 0) with true by (symmetry; apply Z.leb_le; lia).
  unfold pow5. rewrite Z.opp_involutive. replace (e - - p) with (e + p) by lia.
  pose proof (pow5_pos p Hp) as P5. rewrite (pow10_split p) by lia.
  destruct (0 <=? e + p) eqn:Ek.
  - apply Z.leb_le in Ek. rewrite Z.shiftl_mul_pow2 by lia. apply is_rne_exact; [apply T_pos|].
    assert (E : 2 ^ (e + 1074) * 2 ^ p = 2 ^ (e + p) * T).
    { rewrite <- pow2_T by lia. rewrite <- pow2_add by lia. f_equal. lia. }
    transitivity (m * 5 ^ p * (2 ^ (e + 1074) * 2 ^ p)); [ring|]. rewrite E. ring.
  - apply Z.leb_gt in Ek. assert (Ha : 0 <= m * 5 ^ p) by nia.
    pose proof (shr_rne_spec (m * 5 ^ p) (- (e + p)) Ha ltac:(lia)) as Hr.
    apply (is_rne_scale _ _ (2 ^ (e + 1074 + p)) _ (pow2_pos (e + 1074 + p) ltac:(lia))) in Hr.
    revert Hr. apply is_rne_eq.
    + rewrite (pow2_add (e + 1074) p) by lia. ring.
    + rewrite <- pow2_add by lia. replace (- (e + p) + (e + 1074 + p)) with (0 + 1074) by lia.
      rewrite pow2_T by lia. rewrite Z.pow_0_r. ring.
Qed.

Lemma scaled_rne_pos m e s : 0 <= m -> -1074 <= e -> 0 < s ->
  is_rne (m * 2 ^ (e + 1074)) (10 ^ s * T) (scaled_rne m e s).
Proof.
  intros Hm He Hs. unfold scaled_rne. replace (s <=? 0) with false by (symmetry; apply Z.leb_gt; lia).
  unfold pow5. pose proof (pow5_pos s ltac:(lia)) as P5. rewrite (pow10_split s) by lia.
  destruct (0 <=? e - s) eqn:Ek.
  - apply Z.leb_le in Ek. rewrite Z.shiftl_mul_pow2 by lia. pose proof (pow2_pos (e - s) Ek) as Pk.
    pose proof (div_rne_spec (m * 2 ^ (e - s)) (5 ^ s) ltac:(nia) P5) as Hr.
    apply (is_rne_scale _ _ (2 ^ (s + 1074)) _ (pow2_pos (s + 1074) ltac:(lia))) in Hr.
    revert Hr. apply is_rne_eq.
    + rewrite <- Z.mul_assoc, <- pow2_add by lia. do 2 f_equal. lia.
    + rewrite pow2_T by lia. ring.
  - apply Z.leb_gt in Ek. rewrite Z.shiftl_mul_pow2 by lia. pose proof (pow2_pos (- (e - s)) ltac:(lia)) as Pk.
    pose proof (div_rne_spec m (5 ^ s * 2 ^ (- (e - s))) Hm (Z.mul_pos_pos _ _ P5 Pk)) as Hr.
    apply (is_rne_scale _ _ (2 ^ (e + 1074)) _ (pow2_pos (e + 1074) ltac:(lia))) in Hr.
    revert Hr. apply is_rne_eq; [reflexivity|].
    rewrite <- Z.mul_assoc, <- pow2_add by lia. replace (- (e - s) + (e + 1074)) with (s + 1074) by lia.
    rewrite pow2_T by lia. ring.
Qed.

Theorem scaled_rne_spec m e s : 0 <= m -> -1074 <= e -> -400 <= s <= 400 ->
  rne10 (m * 2 ^ (e + 1074)) s (scaled_rne m e s) /\ 0 <= scaled_rne m e s.
Proof.
  intros Hm He Hs. unfold rne10. pose proof T_pos as PT. pose proof (pow2_pos (e + 1074) ltac:(lia)) as PV.
  destruct (Z_le_gt_dec s 0) as [L|L].
  - pose proof (scaled_rne_nonpos m e (- s) Hm He ltac:(lia)) as H. rewrite Z.opp_involutive in H.
    pose proof (pow10_pos (- s) ltac:(lia)) as Pp.
    assert (Hnn : 0 <= m * 2 ^ (e + 1074) * 10 ^ - s) by nia.
    split; [|apply (is_rne_nonneg _ _ _ Hnn PT H)].
    apply (is_rne_scale _ _ (p10 s) _ (p10_pos s ltac:(lia))) in H. revert H. apply is_rne_eq; [|ring].
    rewrite <- Z.mul_assoc. f_equal. unfold p10. rewrite <- pow10_add by lia. f_equal. lia.
  - pose proof (scaled_rne_pos m e s Hm He ltac:(lia)) as H. pose proof (pow10_pos s ltac:(lia)) as Pp.
    assert (Hnn : 0 <= m * 2 ^ (e + 1074)) by nia. assert (Hdd : 0 < 10 ^ s * T) by nia.
    split; [|apply (is_rne_nonneg _ _ _ Hnn Hdd H)].
    apply (is_rne_scale _ _ (10 ^ 400) _ (pow10_pos 400 ltac:(lia))) in H. revert H. apply is_rne_eq; [reflexivity|].
    unfold p10. rewrite pow10_add by lia. ring.
Qed.

(* ------------------------------------------------------------------------------------------ *)
(* ilog10 is the decimal exponent                                                              *)
(* ------------------------------------------------------------------------------------------ *)

Lemma T_eq : T = 2 ^ 1074.
Proof. pose proof (pow2_T 0 ltac:(lia)) as H. rewrite Z.pow_0_r, Z.mul_1_l in H. symmetry. exact H. Qed.

Lemma pow10_le_spec x m e : -400 <= x <= 400 -> 0 <= m -> -1074 <= e ->
  pow10_le x m e = true <-> le10 x (m * 2 ^ (e + 1074)).
Proof.
  intros Hx Hm He. unfold pow10_le, le10, pow5. cbv zeta.
  set (xp := Z.max x 0). set (xn := Z.max (- x) 0). set (kp := Z.max (x - e) 0). set (kn := Z.max (- (x - e)) 0).
  rewrite !Z.shiftl_mul_pow2 by (unfold kp, kn; lia).
  set (c := 5 ^ (400 - xn) * 2 ^ (x + 1474 - kp)).
  assert (Hc : 0 < c).
  { unfold c. apply Z.mul_pos_pos; [apply pow5_pos; unfold xn; lia | apply pow2_pos; unfold kp; lia]. }
  assert (E1 : p10 x * T = (5 ^ xp * 2 ^ kp) * c).
  { unfold p10, c. rewrite T_eq, (pow10_split (x + 400)) by lia.
    replace (x + 400) with (xp + (400 - xn)) at 1 by (unfold xp, xn; lia). rewrite pow5_add by (unfold xp, xn; lia).
    transitivity (5 ^ xp * 5 ^ (400 - xn) * (2 ^ (x + 400) * 2 ^ 1074)); [ring|].
    rewrite <- pow2_add by lia. replace (x + 400 + 1074) with (kp + (x + 1474 - kp)) by lia.
    rewrite pow2_add by (unfold kp; lia). ring. }
  assert (E2 : m * 2 ^ (e + 1074) * 10 ^ 400 = (m * 5 ^ xn * 2 ^ kn) * c).
  { unfold c. rewrite (pow10_split 400) by lia.
    replace 400 with (xn + (400 - xn)) at 1 by lia. rewrite pow5_add by (unfold xn; lia).
    transitivity (m * 5 ^ xn * 5 ^ (400 - xn) * (2 ^ (e + 1074) * 2 ^ 400)); [ring|].
    rewrite <- pow2_add by lia. replace (e + 1074 + 400) with (kn + (x + 1474 - kp)) by (unfold kn, kp; lia).
    rewrite pow2_add by (unfold kn, kp; lia). ring. }
  rewrite E1, E2, Z.leb_le. split; intros H.
  - apply Z.mul_le_mono_nonneg_r; [lia | exact H].
  - apply (Z.mul_le_mono_pos_r _ _ c Hc). exact H.
Qed.

Definition ilog_chk (L : Z) : bool :=
  let x := L * 30103 / 100000 in
  pow10_le (x - 1) 1 L && negb (pow10_le (x + 2) 1 (L + 1)).

Lemma ilog_table : forallb ilog_chk (map (fun i => Z.of_nat i - 1074) (seq 0 2098)) = true.
Proof. vm_compute. reflexivity. Qed.

Lemma ilog_chk_range L : -1074 <= L <= 1023 -> ilog_chk L = true.
Proof.
  intros H. pose proof ilog_table as Tb. rewrite forallb_forall in Tb. apply Tb.
  apply in_map_iff. exists (Z.to_nat (L + 1074)). split; [lia|]. apply in_seq. lia.
Qed.

Theorem ilog10_spec m e : 0 < m < two53 -> -1074 <= e <= 971 ->
  in_decade (m * 2 ^ (e + 1074)) (ilog10 m e) /\ -326 <= ilog10 m e <= 309.
Proof.
  intros Hm He. assert (T53 : two53 = 2 ^ 53) by reflexivity.
  pose proof (Z.log2_spec m ltac:(lia)) as [L1 L2]. pose proof (Z.log2_nonneg m) as L0.
  assert (Hl53 : Z.log2 m < 53) by (apply Z.log2_lt_pow2; lia).
  set (L := Z.log2 m + e). assert (HL : -1074 <= L <= 1023) by (unfold L; lia).
  set (V := m * 2 ^ (e + 1074)). pose proof (pow2_pos (e + 1074) ltac:(lia)) as Pe.
  assert (HV1 : 2 ^ (L + 1074) <= V).
  { unfold V, L. replace (Z.log2 m + e + 1074) with (Z.log2 m + (e + 1074)) by lia. rewrite pow2_add by lia. nia. }
  assert (HV2 : V < 2 ^ (L + 1075)).
  { assert (EL : L + 1075 = Z.succ (Z.log2 m) + (e + 1074)) by (unfold L; lia).
    rewrite EL, pow2_add by lia. unfold V. apply Z.mul_lt_mono_pos_r; assumption. }
  pose proof (ilog_chk_range L HL) as C. unfold ilog_chk in C. cbv zeta in C.
  unfold ilog10. fold L. set (x := L * 30103 / 100000) in *.
  assert (Hx : -324 <= x < 308).
  { unfold x. clearbody L. clear -HL. split; [apply Z.div_le_lower_bound | apply Z.div_lt_upper_bound]; lia. }
  apply andb_true_iff in C as [C1 C2]. apply negb_true_iff in C2.
  apply (pow10_le_spec (x - 1) 1 L ltac:(lia) ltac:(lia) ltac:(lia)) in C1. rewrite Z.mul_1_l in C1.
  assert (C2' : ~ le10 (x + 2) (1 * 2 ^ (L + 1 + 1074))).
  { intros Q. apply (pow10_le_spec (x + 2) 1 (L + 1) ltac:(lia) ltac:(lia) ltac:(lia)) in Q. congruence. }
  rewrite Z.mul_1_l in C2'. replace (L + 1 + 1074) with (L + 1075) in C2' by lia.
  pose proof (pow10_pos 400 ltac:(lia)) as P4. unfold le10 in C1, C2'.
  assert (A1 : le10 (x - 1) V) by (unfold le10; nia).
  assert (A2 : lt10 V (x + 2)) by (unfold lt10; nia).
  assert (Hm0 : 0 <= m) by lia.
  destruct (pow10_le (x + 1) m e) eqn:E1.
  - apply (pow10_le_spec (x + 1) m e ltac:(lia) Hm0 ltac:(lia)) in E1. split; [|lia]. split; [exact E1|].
    replace (x + 1 + 1) with (x + 2) by lia. exact A2.
  - destruct (pow10_le x m e) eqn:E0.
    + apply (pow10_le_spec x m e ltac:(lia) Hm0 ltac:(lia)) in E0. split; [|lia]. split; [exact E0|].
      unfold lt10. destruct (Z_lt_le_dec (V * 10 ^ 400) (p10 (x + 1) * T)) as [Q|Q]; [exact Q|]. exfalso.
      apply (pow10_le_spec (x + 1) m e ltac:(lia) Hm0 ltac:(lia)) in Q. congruence.
    + split; [|lia]. split; [exact A1|]. replace (x - 1 + 1) with x by lia.
      unfold lt10. destruct (Z_lt_le_dec (V * 10 ^ 400) (p10 x * T)) as [Q|Q]; [exact Q|]. exfalso.
      apply (pow10_le_spec x m e ltac:(lia) Hm0 ltac:(lia)) in Q. congruence.
Qed.

(* ------------------------------------------------------------------------------------------ *)
(* the text of %.*g depends on the value only through the rounded decimal q * 10^s             *)
(* ------------------------------------------------------------------------------------------ *)

(* the precision %g works with *)
Definition gP (prec : Z) : Z := let p := norm_prec prec in if p =? 0 then 1 else p.

(* the text after the sign: ds are the significant digits without trailing zeros, X the decimal exponent *)
Definition gtext (P : Z) (ds : list Z) (X : Z) : bytes :=
  if (X <? P) && (-4 <=? X) then
    if 0 <=? X then
      let ni := Z.to_nat (X + 1) in
      dec_chars (firstn ni (ds ++ zeros (X + 1 - lenZ ds))) ++
      (match skipn ni ds with [] => [] | _ => 46 :: dec_chars (skipn ni ds) end)
    else [48; 46] ++ dec_chars (zeros (- X - 1) ++ ds)
  else
    match ds with
    | [] => []
    | d :: r => dec_char d :: (match r with [] => [] | _ => 46 :: dec_chars r end) ++ 101 :: exp_text X
    end.

Definition gtext_of (P q s : Z) : bytes :=
  gtext P (strip_tz (nat_digits 10 q)) (s + lenZ (nat_digits 10 q) - 1).

Lemma drop_zeros_zeros k l : drop_zeros (zeros k ++ l) = drop_zeros l.
Proof. unfold zeros. induction (Z.to_nat k) as [|n IH]; [reflexivity | exact IH]. Qed.

Lemma rev_zeros k : rev (zeros k) = zeros k.
Proof.
  unfold zeros. induction (Z.to_nat k) as [|n IH]; [reflexivity|]. cbn [replicate rev]. rewrite IH. apply replicate_snoc.
Qed.

Lemma strip_tz_zeros l k : strip_tz (l ++ zeros k) = strip_tz l.
Proof. unfold strip_tz. rewrite rev_app_distr, rev_zeros, drop_zeros_zeros. reflexivity. Qed.

Lemma gtext_of_shift P q s k : 0 < q -> 0 <= k -> gtext_of P (q * 10 ^ k) (s - k) = gtext_of P q s.
Proof.
  intros Hq Hk. unfold gtext_of. rewrite (nat_digits_shift q k Hq Hk), strip_tz_zeros, lenZ_app, lenZ_zeros by lia.
  f_equal. lia.
Qed.

Lemma scaled_rne_exact m e s : 0 <= m -> -1074 <= e -> s <= 0 -> s <= e ->
  m * 2 ^ (e + 1074) * 10 ^ (- s) = scaled_rne m e s * T.
Proof.
  intros Hm He Hs Hse. unfold scaled_rne. replace (s <=? 0) with true by (symmetry; apply Z.leb_le; lia).
  replace (0 <=? e - s) with true by (symmetry; apply Z.leb_le; lia). unfold pow5.
  rewrite Z.shiftl_mul_pow2 by lia. rewrite (pow10_split (- s)) by lia.
  assert (E : 2 ^ (e + 1074) * 2 ^ (- s) = 2 ^ (e - s) * T).
  { rewrite <- pow2_T by lia. rewrite <- pow2_add by lia. f_equal. lia. }
  transitivity (m * 5 ^ (- s) * (2 ^ (e + 1074) * 2 ^ (- s))); [ring|]. rewrite E. ring.
Qed.

Lemma nat_digits_nonempty_strip q : 0 < q -> strip_tz (nat_digits 10 q) <> [].
Proof.
  intros Hq. destruct (nat_digits_pos_head q Hq) as (x & r & E & Hx). rewrite E. unfold strip_tz.
  intros H. apply (f_equal (@rev Z)) in H. rewrite rev_involutive in H. cbn [rev] in H.
  assert (G : forall l, drop_zeros (l ++ [x]) <> []).
  { induction l as [|a l IH]; cbn [app drop_zeros].
    - destruct x; try discriminate. congruence.
    - destruct a; try discriminate. exact IH. }
  exact (G _ H).
Qed.

Theorem fmt_g_canon prec b : b64_is_finite b = true -> b64_m b <> 0 -> 1 <= gP prec <= 60 ->
  exists x0 q, -326 <= x0 <= 309 /\ in_decade (Vof b) x0 /\ rne10 (Vof b) (x0 - gP prec + 1) q /\ 0 < q /\
               fmt_g prec b = sign_text b ++ gtext_of (gP prec) q (x0 - gP prec + 1).
Proof.
  intros Hfin Hm0 HP. pose proof (b64_m_range b) as Hm. pose proof (b64_e_range b Hfin) as He.
  unfold fmt_g. fold (gP prec). set (P := gP prec) in *. rewrite Hfin. cbn [negb]. cbv zeta.
  replace (b64_m b =? 0) with false by (symmetry; apply Z.eqb_neq; exact Hm0).
  unfold Vof. set (m := b64_m b) in *. set (e := b64_e b) in *. set (V := m * 2 ^ (e + 1074)).
  destruct (ilog10_spec m e ltac:(lia) He) as [Hdec Hx0]. fold V in Hdec. set (x0 := ilog10 m e) in *.
  set (st := x0 - P + 1). set (s := Z.max st (Z.min e 0)).
  assert (Hs : -400 <= s <= 400) by (unfold s, st; lia).
  destruct (scaled_rne_spec m e s ltac:(lia) ltac:(lia) Hs) as [Hr Hq0]. fold V in Hr.
  set (qs := scaled_rne m e s) in *.
  pose proof T_pos as PT. pose proof (pow10_pos 400 ltac:(lia)) as P4.
  pose proof (p10_pos st ltac:(unfold st; lia)) as Pst. pose proof (p10_pos s ltac:(lia)) as Ps.
  assert (HVpos : 0 < V) by (unfold V; pose proof (pow2_pos (e + 1074) ltac:(lia)); nia).
  set (k := s - st). assert (Hk : 0 <= k) by (unfold k, s; lia).
  pose proof (pow10_pos k Hk) as Pk.
  assert (Eg : p10 s = p10 st * 10 ^ k) by (replace s with (st + k) by (unfold k; lia); apply p10_shift; unfold st; lia).
  (* the rounding at the unclamped position *)
  assert (Hrt : rne10 V st (qs * 10 ^ k) /\ 0 < qs).
  { destruct (Z.eq_dec k 0) as [Ek | Ek].
    - rewrite Ek, Z.pow_0_r, Z.mul_1_r. replace st with s by (unfold k in Ek; lia). split; [exact Hr|].
      (* V >= 10^x0 >= the grid step *)
      destruct Hdec as [Hlo _]. unfold le10 in Hlo. unfold rne10, is_rne in Hr. destruct Hr as [Hr _].
      assert (Ex0 : p10 x0 = p10 s * 10 ^ (P - 1)).
      { replace x0 with (s + (P - 1)) by (unfold k, st in Ek; lia). apply p10_shift; lia. }
      pose proof (pow10_pos (P - 1) ltac:(lia)) as PP1. rewrite Ex0 in Hlo.
      destruct (Z_lt_le_dec 0 qs) as [Q|Q]; [exact Q|]. exfalso.
      set (g := p10 s * T) in *. assert (Hg : 0 < g) by (unfold g; nia).
      assert (g <= V * 10 ^ 400) by (unfold g; nia). nia.
    - assert (Hcl : s = Z.min e 0 /\ st < s) by (unfold k, s in *; lia). destruct Hcl as [Es Hlt].
      pose proof (scaled_rne_exact m e s ltac:(lia) ltac:(lia) ltac:(lia) ltac:(lia)) as Ex. fold qs V in Ex.
      assert (E4 : V * 10 ^ 400 = qs * (p10 s * T)).
      { unfold p10. replace 400 with (- s + (s + 400)) at 1 by lia. rewrite pow10_add by lia.
        transitivity (V * 10 ^ (- s) * 10 ^ (s + 400)); [ring|]. rewrite Ex. ring. }
      split.
      + unfold rne10. apply is_rne_exact; [nia|]. rewrite E4, Eg. ring.
      + destruct (Z_lt_le_dec 0 qs) as [Q|Q]; [exact Q|]. exfalso. nia. }
  destruct Hrt as [Hrt Hqs].
  exists x0, (qs * 10 ^ k). split; [exact Hx0|]. split; [exact Hdec|]. split; [exact Hrt|]. split; [nia|].
  assert (Et : gtext_of P (qs * 10 ^ k) st = gtext_of P qs s).
  { rewrite <- (gtext_of_shift P qs s k Hqs Hk). f_equal. unfold k. lia. }
  change (x0 - P + 1) with st. rewrite Et.
  unfold gtext_of. pose proof (nat_digits_nonempty_strip qs Hqs) as Hne.
  set (X := s + lenZ (nat_digits 10 qs) - 1). set (ds := strip_tz (nat_digits 10 qs)) in *.
  unfold gtext. destruct ((X <? P) && (-4 <=? X)).
  - destruct (0 <=? X); reflexivity.
  - destruct ds as [|d r]; [congruence | reflexivity].
Qed.

(* ------------------------------------------------------------------------------------------ *)
(* strtod returns the nearest double, any decimal exponent                                     *)
(* ------------------------------------------------------------------------------------------ *)

(* mant * 2^a is R / G rounded to a multiple of 2^a, with at least 53 bits unless a = 0: no m * 2^k is nearer *)
Lemma nearest_from_rne R G a mant : 0 < G -> 0 <= a ->
  is_rne R (G * 2 ^ a) mant -> (0 < a -> two52 <= mant /\ two52 * (G * 2 ^ a) <= R) ->
  forall m k, 0 <= m < two53 -> 0 <= k -> Z.abs (mant * 2 ^ a * G - R) <= Z.abs (m * 2 ^ k * G - R).
Proof.
  intros HG Ha Hs Hlow m k Hm Hk. pose proof (pow2_pos a Ha) as PW. set (W := 2 ^ a) in *.
  set (A := G * W) in *. assert (HA : 0 < A) by (unfold A; nia).
  assert (T52 : two52 = 4503599627370496) by reflexivity. assert (T53 : two53 = 9007199254740992) by reflexivity.
  replace (mant * W * G) with (mant * A) by (unfold A; ring).
  destruct (Z_le_gt_dec a k) as [Hka | Hka].
  - replace (m * 2 ^ k * G) with (m * 2 ^ (k - a) * A).
    + apply is_rne_nearest; assumption.
    + unfold A, W. replace k with ((k - a) + a) at 2 by lia. rewrite pow2_add by lia. ring.
  - destruct (Hlow ltac:(lia)) as [Hmant HRlow].
    assert (HV : m * 2 ^ k * G < two52 * A).
    { assert (Ea : W = 2 * 2 ^ (a - 1)).
      { unfold W. replace a with (1 + (a - 1)) at 1 by lia. rewrite pow2_add by lia. reflexivity. }
      assert (2 ^ k <= 2 ^ (a - 1)) by (apply pow2_le; lia).
      pose proof (pow2_pos k Hk). unfold A. rewrite Ea.
      assert (m * 2 ^ k < two52 * (2 * 2 ^ (a - 1))) by nia. nia. }
    pose proof (is_rne_nearest R A mant two52 HA Hs) as Hn. lia.
Qed.

Lemma inf_not_finite neg : b64_is_finite (sgn_bits neg + b64_inf_bits) = false.
Proof. destruct neg; reflexivity. Qed.

Lemma nearest_tail neg u mant R :
  -1074 <= u -> 0 <= mant <= two53 -> (mant < two52 -> u = -1074) ->
  let bits := (u + 1074) * two52 + mant in
  bits < b64_inf_bits ->
  is_rne R (10 ^ 400 * 2 ^ (u + 1074)) mant ->
  (-1074 < u -> two52 * (10 ^ 400 * 2 ^ (u + 1074)) <= R) ->
  let y := sgn_bits neg + bits in
  b64_is_finite y = true /\ sign_text y = sgn_text neg /\
  forall m k, 0 <= m < two53 -> 0 <= k -> Z.abs (Vof y * 10 ^ 400 - R) <= Z.abs (m * 2 ^ k * 10 ^ 400 - R).
Proof.
  intros Hu Hm Hden bits Hfin Hs Hlow y.
  assert (T52 : two52 = 4503599627370496) by reflexivity. assert (T53 : two53 = 9007199254740992) by reflexivity.
  assert (T63 : two63 = 9223372036854775808) by reflexivity.
  assert (Hbits : 0 <= bits < two63) by (unfold bits, b64_inf_bits in *; nia).
  destruct (sgn_add neg bits Hbits) as (Eexp & Eman & Esign). fold y in Eexp, Eman, Esign.
  pose proof (encode_value u mant Hu Hm Hden) as EV. cbv zeta in EV. fold bits in EV. specialize (EV Hfin).
  assert (EVof : Vof y = mant * 2 ^ (u + 1074)) by (unfold Vof, b64_m, b64_e; rewrite Eexp, Eman; exact EV).
  split; [|split; [exact Esign|]].
  - unfold b64_is_finite. rewrite Eexp. apply negb_true_iff. apply Z.eqb_neq. unfold b64_exp.
    assert (bits / two52 < 2047) by (apply Z.div_lt_upper_bound; unfold b64_inf_bits in Hfin; lia).
    assert (0 <= bits / two52) by (apply Z.div_pos; lia). rewrite Z.mod_small by lia. lia.
  - rewrite EVof. apply nearest_from_rne; [apply pow10_pos; lia | lia | exact Hs |].
    intros Ha. split; [|apply Hlow; lia]. destruct (Z_lt_le_dec mant two52) as [Q|Q]; [specialize (Hden Q); lia | exact Q].
Qed.

Lemma round_pos_overflow x t : 0 < x -> 1025 < Z.log2 x + 1 + t -> b64_round_pos x t = b64_inf_bits.
Proof.
  intros Hx H. unfold b64_round_pos. replace (x <=? 0) with false by (symmetry; apply Z.leb_gt; lia).
  replace (1025 <? Z.log2 x + 1 + t) with true by (symmetry; apply Z.ltb_lt; lia). reflexivity.
Qed.

Theorem b64_of_decimal_nearest_gen neg D E :
  digits_ok 10 D -> (length D <= 80)%nat -> -400 <= E -> lenZ D + E <= 400 ->
  let y := b64_of_decimal neg D E in
  let R := val_be 10 D * p10 E * T in
  b64_is_finite y = true ->
  (val_be 10 D = 0 \/ 10 ^ 400 <= R) ->               (* the decimal is zero or at least 2^-1074 *)
  sign_text y = sgn_text neg /\
  forall m k, 0 <= m < two53 -> 0 <= k -> Z.abs (Vof y * 10 ^ 400 - R) <= Z.abs (m * 2 ^ k * 10 ^ 400 - R).
Proof.
  intros Ho Hlen HE HE2. cbv zeta.
  pose proof (drop_zeros_val D) as Ev. pose proof (drop_zeros_ok D Ho) as Ho0. pose proof (drop_zeros_len D) as Hl0.
  pose proof T_pos as PT. pose proof (pow10_pos 400 ltac:(lia)) as P4. pose proof (p10_pos E ltac:(lia)) as PE.
  destruct (drop_zeros_head D) as [E0 | (x0 & r0 & E0 & Hnz0)].
  - (* the decimal is zero *)
    assert (Ey : b64_of_decimal neg D E = sgn_bits neg) by (unfold b64_of_decimal; rewrite E0; reflexivity).
    rewrite Ey. rewrite E0 in Ev. change (val_be 10 []) with 0 in Ev. rewrite <- Ev. intros _ _.
    destruct neg; (split; [reflexivity|]); intros m k Hm Hk;
      pose proof (pow2_pos k Hk); (replace (Vof _) with 0 by reflexivity); rewrite !Z.mul_0_l, !Z.sub_0_r; cbn [Z.abs]; nia.
  - set (d := val_be 10 D) in *.
    assert (Hd : 0 < d).
    { rewrite <- Ev, E0. rewrite E0 in Ho0. pose proof (digits_lower x0 r0 Ho0 Hnz0).
      pose proof (pow10_pos (lenZ r0) (lenZ_nonneg r0)). lia. }
    pose proof (b64_of_decimal_unfold neg D E) as U. cbv zeta in U.
    assert (Hne : drop_zeros D <> []) by (rewrite E0; discriminate).
    assert (Hskip : skipn dec_max_digits (drop_zeros D) = []) by (apply skipn_all2; unfold dec_max_digits; lia).
    assert (Hwin : -400 <= lenZ (drop_zeros D) + E <= 400).
    { assert (1 <= lenZ (drop_zeros D) <= 80 /\ lenZ (drop_zeros D) <= lenZ D) by (unfold lenZ; rewrite E0 in *; cbn [length] in *; lia). lia. }
    specialize (U Hne Hskip Hwin). change (dval (drop_zeros D)) with (val_be 10 (drop_zeros D)) in U. rewrite Ev in U.
    fold (sgn_bits neg) in U. rewrite U. clear U. intros Hfin [Hz | Hbig]; [lia|].
    destruct (0 <=? E) eqn:EE.
    + (* an integer *)
      apply Z.leb_le in EE. pose proof (pow5_pos E EE) as P5. set (x := d * 5 ^ E) in *.
      assert (Hx : 0 < x) by (unfold x; nia).
      destruct (Z_lt_le_dec 1025 (Z.log2 x + 1 + E)) as [Hov | Hnov].
      { rewrite (round_pos_overflow x E Hx Hov), inf_not_finite in Hfin. discriminate Hfin. }
      pose proof (Z.log2_nonneg x) as Hl0'.
      pose proof (b64_round_pos_correct x E Hx) as C. cbv zeta in C. specialize (C Hnov ltac:(lia)).
      destruct C as (mant & Hr & Hm & Hden & Hres). set (u := ulp_exp x E) in *.
      assert (Hu : -1074 <= u) by (unfold u, ulp_exp; lia).
      cbv zeta in Hres. set (bits := (u + 1074) * two52 + mant) in *.
      destruct (b64_inf_bits <=? bits) eqn:Einf.
      { rewrite Hres, inf_not_finite in Hfin. discriminate Hfin. }
      apply Z.leb_gt in Einf. rewrite Hres.
      pose proof (Z.log2_spec x Hx) as [Lx1 _]. set (lx := Z.log2 x) in *.
      assert (ER : d * p10 E * T = x * 2 ^ (E + 1074) * 10 ^ 400).
      { replace E with (0 + E) at 1 by lia. rewrite p10_shift, p10_0, (pow10_split E), pow2_T by lia. unfold x. ring. }
      rewrite ER.
      destruct (nearest_tail neg u mant (x * 2 ^ (E + 1074) * 10 ^ 400) Hu Hm Hden Einf) as (_ & Hsg & Hn).
      * unfold rounded_at in Hr. destruct (u <=? E) eqn:Eu.
        -- apply Z.leb_le in Eu. apply is_rne_exact; [pose proof (pow2_pos (u + 1074) ltac:(lia)); nia|].
           rewrite Hr. replace (E + 1074) with ((E - u) + (u + 1074)) by lia. rewrite pow2_add by lia. ring.
        -- apply Z.leb_gt in Eu.
           apply (is_rne_scale _ _ (2 ^ (E + 1074) * 10 ^ 400) _) in Hr; [|pose proof (pow2_pos (E + 1074) ltac:(lia)); nia].
           revert Hr. apply is_rne_eq; [ring|].
           replace (u + 1074) with ((u - E) + (E + 1074)) by lia. rewrite (pow2_add (u - E) (E + 1074)) by lia. ring.
      * intros Hu1. assert (Eu : u = lx + 1 + E - 53) by (unfold u, ulp_exp in *; fold lx in Hu1 |- *; lia).
        assert (E2 : two52 * 2 ^ (u + 1074) = 2 ^ lx * 2 ^ (E + 1074)).
        { change two52 with (2 ^ 52). rewrite <- !pow2_add by lia. f_equal. lia. }
        pose proof (pow2_pos (E + 1074) ltac:(lia)).
        transitivity (2 ^ lx * 2 ^ (E + 1074) * 10 ^ 400); [rewrite <- E2; lia | nia].
      * split; [exact Hsg | exact Hn].
    + (* a negative decimal exponent *)
      apply Z.leb_gt in EE. set (L := - E). assert (HL : 1 <= L <= 400) by (unfold L; lia).
      replace E with (- L) in * by (unfold L; lia). rewrite Z.opp_involutive in *. cbv zeta in Hfin |- *.
      pose proof (decimal_neg_canonical d L Hd ltac:(lia)) as C. cbv zeta in C.
      set (bq := 5 ^ L) in *. set (j := Z.max 0 (57 + Z.log2 bq - Z.log2 d)) in *. set (N := d * 2 ^ j) in *.
      set (x := 2 * (N / bq) + (if N mod bq =? 0 then 0 else 1)) in *. set (t := - L - j - 1) in *.
      assert (Hbq : 0 < bq) by (apply pow5_pos; lia).
      assert (Hj : 0 <= j) by (unfold j; lia).
      pose proof (pow2_pos j Hj) as Pj.
      assert (HN : 0 < N) by (unfold N; nia).
      assert (HNbig : 2 ^ 56 * bq <= N).
      { pose proof (Z.log2_spec bq Hbq) as [_ Lb]. pose proof (Z.log2_spec d Hd) as [Ld _].
        pose proof (Z.log2_nonneg bq) as Lb0. pose proof (Z.log2_nonneg d) as Ld0.
        assert (E1 : 2 ^ (57 + Z.log2 bq) <= d * 2 ^ j).
        { apply Z.le_trans with (2 ^ (Z.log2 d) * 2 ^ j); [|nia]. rewrite <- pow2_add by lia. apply pow2_le. unfold j. lia. }
        assert (E2 : 2 ^ (57 + Z.log2 bq) = 2 ^ 56 * 2 ^ (Z.succ (Z.log2 bq))).
        { rewrite <- pow2_add by lia. f_equal. lia. }
        unfold N. pose proof (pow2_pos 56 ltac:(lia)). nia. }
      pose proof (Z.div_mod N bq ltac:(lia)) as Hdm. pose proof (Z.mod_pos_bound N bq Hbq) as Hrm.
      assert (Hq : 2 ^ 56 <= N / bq) by (apply Z.div_le_lower_bound; lia).
      assert (Hx57 : 2 ^ 57 <= x).
      { unfold x. change (2 ^ 57) with (2 * 2 ^ 56). destruct (N mod bq =? 0); lia. }
      assert (Hx : 0 < x) by (pose proof (pow2_pos 57 ltac:(lia)); lia).
      assert (Hlx : 57 <= Z.log2 x) by (apply Z.log2_le_pow2; [exact Hx | exact Hx57]).
      pose proof (Z.log2_spec x Hx) as [Lx1 Lx2]. 
      destruct (Z_lt_le_dec 1025 (Z.log2 x + 1 + t)) as [Hov | Hnov].
      { rewrite (round_pos_overflow x t Hx Hov), inf_not_finite in Hfin. discriminate Hfin. }
      set (lx := Z.log2 x) in *.
      assert (Hlow : 2 ^ lx * bq <= 2 * N).
      { assert (Ep : 2 ^ lx = 2 * 2 ^ (lx - 1)).
        { replace lx with (1 + (lx - 1)) at 1 by lia. rewrite pow2_add by lia. reflexivity. }
        pose proof (pow2_pos (lx - 1) ltac:(lia)) as Pl.
        assert (2 ^ (lx - 1) <= N / bq) by (unfold x in Lx1; destruct (N mod bq =? 0); lia). nia. }
      (* the decimal is at least 2^-1074: no underflow exit *)
      assert (HdT : 10 ^ L <= d * T).
      { unfold p10 in Hbig. replace 400 with (L + (- L + 400)) in Hbig at 1 by lia. rewrite pow10_add in Hbig by lia.
        pose proof (pow10_pos (- L + 400) ltac:(lia)) as Pr. nia. }
      assert (Hunder : -1080 <= lx + 1 + t).
      { assert (Hxb : N <= x * bq).
        { assert (N < (N / bq + 1) * bq) by nia. pose proof (pow2_pos 56 ltac:(lia)).
          assert (x * bq >= 2 * (N / bq) * bq) by (unfold x; destruct (N mod bq =? 0); nia). nia. }
        rewrite (pow10_split L) in HdT by lia. fold bq in HdT.
        pose proof (pow2_pos L ltac:(lia)) as P2L.
        assert (H1 : bq * (2 ^ L * 2 ^ j) <= bq * (x * T)).
        { transitivity (d * T * 2 ^ j); [nia|]. transitivity (N * T); [unfold N; nia|]. nia. }
        apply Z.mul_le_mono_pos_l in H1; [|exact Hbq].
        assert (H2 : 2 ^ (L + j) < 2 ^ (Z.succ lx + 1074)).
        { rewrite (pow2_add L j), (pow2_T (Z.succ lx)) by lia. nia. }
        apply Z.pow_lt_mono_r_iff in H2; unfold t; lia. }
      specialize (C Hnov Hunder). destruct C as (mant & Hr & Hm & Hden & Hres).
      set (u := ulp_exp x t) in *.
      assert (Hu : -1074 <= u) by (unfold u, ulp_exp; lia).
      cbv zeta in Hres. set (bits := (u + 1074) * two52 + mant) in *.
      destruct (b64_inf_bits <=? bits) eqn:Einf.
      { rewrite Hres, inf_not_finite in Hfin. discriminate Hfin. }
      apply Z.leb_gt in Einf. rewrite Hres.
      pose proof (rne_decimal_scaled d L u mant Hu ltac:(lia) Hr) as Hs.
      assert (Ep : 10 ^ L * p10 (- L) = 10 ^ 400) by (unfold p10; rewrite <- pow10_add by lia; f_equal; lia).
      destruct (nearest_tail neg u mant (d * p10 (- L) * T) Hu Hm Hden Einf) as (_ & Hsg & Hn).
      * apply (is_rne_scale _ _ (p10 (- L)) _ PE) in Hs. revert Hs. apply is_rne_eq; [ring|]. rewrite <- Ep. ring.
      * intros Hu1. assert (Eu : u = lx + 1 + t - 53) by (unfold u, ulp_exp in *; fold lx in Hu1 |- *; lia).
        set (a := u + 1074) in *. assert (Ha : 0 < a) by (unfold a; lia). set (W := 2 ^ a) in *.
        assert (El : lx + 1074 = a + L + j + 53) by (unfold a, t in *; lia).
        assert (E2 : 2 ^ lx * T = W * 2 ^ L * 2 ^ j * 2 ^ 53).
        { rewrite <- pow2_T, El by lia. unfold W. rewrite !pow2_add by lia. reflexivity. }
        assert (HRlow : two52 * (10 ^ L * W) <= d * T).
        { assert (E3 : (two52 * (10 ^ L * W)) * (2 * 2 ^ j) = 2 ^ lx * bq * T).
          { rewrite (pow10_split L) by lia. fold bq. change (2 ^ 53) with (2 * two52) in E2.
            transitivity (bq * (W * 2 ^ L * 2 ^ j * (2 * two52))); [ring|]. rewrite <- E2. ring. }
          assert (E4 : (d * T) * (2 * 2 ^ j) = 2 * N * T) by (unfold N; ring).
          apply (Z.mul_le_mono_pos_r _ _ (2 * 2 ^ j)); [lia|]. rewrite E3, E4. apply Z.mul_le_mono_nonneg_r; lia. }
        rewrite <- Ep. transitivity (two52 * (10 ^ L * W) * p10 (- L)); [lia|]. nia.
      * split; [exact Hsg | exact Hn].
Qed.

(* ------------------------------------------------------------------------------------------ *)
(* strtod on the text of %g                                                                    *)
(* ------------------------------------------------------------------------------------------ *)

Lemma format_double_post_g b prec : format_double b prec true 64 = post (fmt_g prec b).
Proof. reflexivity. Qed.

Lemma sat_digits_val_acc bound l : digits_ok 10 l -> forall acc, 0 <= acc ->
  acc * 10 ^ lenZ l + val_be 10 l <= bound ->
  fold_left (fun a c => Z.min bound (a * 10 + (c - 48))) (dec_chars l) acc = acc * 10 ^ lenZ l + val_be 10 l.
Proof.
  induction 1 as [|x r Hx Hr IH]; intros acc Ha Hb.
  - cbn. change (lenZ []) with 0. lia.
  - change (dec_chars (x :: r)) with (dec_char x :: dec_chars r). cbn [fold_left].
    rewrite val_be_cons, lenZ_cons in *. rewrite Z.pow_add_r in * by (try apply lenZ_nonneg; lia).
    change (10 ^ 1) with 10 in *. pose proof (val_be_bound r Hr) as B. pose proof (pow10_pos (lenZ r) (lenZ_nonneg r)) as Pp.
    replace (dec_char x - 48) with x by (unfold dec_char; lia).
    assert (Hle : acc * 10 + x <= bound) by nia.
    rewrite Z.min_r by lia. rewrite IH by nia. ring.
Qed.

Lemma sat_digits_val_dec bound l : digits_ok 10 l -> val_be 10 l <= bound ->
  sat_digits_val bound (dec_chars l) = val_be 10 l.
Proof. intros Ho Hb. unfold sat_digits_val. rewrite (sat_digits_val_acc bound l Ho 0) by lia. lia. Qed.

(* the exponent field reads back *)
Lemma exp_part_text X bound : Z.abs X <= bound -> exp_part 101 69 bound (101 :: exp_text X) = X.
Proof.
  intros Hb. unfold exp_part. change (101 =? 101) with true. cbn [orb]. unfold exp_text.
  destruct (nat_digits_spec 10 (Z.abs X) ltac:(lia) (Z.abs_nonneg X)) as (V & O & Hne).
  set (nd := nat_digits 10 (Z.abs X)) in *.
  set (pad := if Z.abs X <? 10 then [48] else []).
  assert (Hpad : exists pz, pad = dec_chars pz /\ digits_ok 10 pz /\ val_be 10 (pz ++ nd) = Z.abs X).
  { unfold pad. destruct (Z.abs X <? 10).
    - exists [0]. split; [reflexivity|]. split; [repeat constructor; lia|]. rewrite val_be_app, V. cbn. lia.
    - exists []. split; [reflexivity|]. split; [constructor | exact V]. }
  destruct Hpad as (pz & -> & Opz & Vpz). rewrite <- dec_chars_app.
  assert (Hspan : span is_digit (dec_chars (pz ++ nd)) = (dec_chars (pz ++ nd), [])).
  { apply span_all_nil. apply dec_chars_digits. apply digits_ok_app; assumption. }
  assert (Hne2 : dec_chars (pz ++ nd) <> []).
  { intros E. apply map_eq_nil in E. apply app_eq_nil in E as [_ E]. contradiction. }
  assert (Hsat : sat_digits_val bound (dec_chars (pz ++ nd)) = Z.abs X).
  { rewrite sat_digits_val_dec; [exact Vpz | apply digits_ok_app; assumption | lia]. }
  destruct (X <? 0) eqn:EX.
  - change (opt_sign (45 :: dec_chars (pz ++ nd))) with (true, dec_chars (pz ++ nd)). cbv iota beta.
    rewrite Hspan. cbv iota beta. destruct (dec_chars (pz ++ nd)) eqn:Ed; [congruence|]. rewrite Hsat.
    apply Z.ltb_lt in EX. lia.
  - change (opt_sign (43 :: dec_chars (pz ++ nd))) with (false, dec_chars (pz ++ nd)). cbv iota beta.
    rewrite Hspan. cbv iota beta. destruct (dec_chars (pz ++ nd)) eqn:Ed; [congruence|]. rewrite Hsat.
    apply Z.ltb_ge in EX. lia.
Qed.

Lemma strtod_exp_style neg d r X : digits_ok 10 (d :: r) -> Z.abs X <= 400 ->
  strtod_dec neg (dec_char d :: (match r with [] => [] | _ => 46 :: dec_chars r end) ++ 101 :: exp_text X) =
  b64_of_decimal neg (d :: r) (X - lenZ r).
Proof.
  intros Ho HX. inversion Ho as [|? ? Hd Hr]; subst.
  assert (Hdc : is_digit (dec_char d) = true).
  { unfold is_digit, dec_char. apply andb_true_iff. split; apply Z.leb_le; lia. }
  unfold strtod_dec.
  set (s := dec_char d :: (match r with [] => [] | _ => 46 :: dec_chars r end) ++ 101 :: exp_text X).
  assert (Hb : Z.abs X <= lenZ s + 1000) by (pose proof (lenZ_nonneg s); lia).
  set (bound := lenZ s + 1000) in *. clearbody bound. unfold s. clear s.
  destruct r as [|r0 r'].
  - cbn [app span]. rewrite Hdc. change (is_digit 101) with false. cbv iota beta.
    cbn [app]. rewrite (exp_part_text X bound Hb). cbn [map]. unfold dec_char. replace (48 + d - 48) with d by lia. reflexivity.
  - cbn [span]. rewrite Hdc.
    change ((46 :: dec_chars (r0 :: r')) ++ 101 :: exp_text X) with (46 :: (dec_chars (r0 :: r') ++ 101 :: exp_text X)).
    cbn [span]. change (is_digit 46) with false. cbv iota beta.
    rewrite (span_app_stop is_digit (dec_chars (r0 :: r')) 101 (exp_text X) (dec_chars_digits _ Hr) eq_refl).
    cbv iota beta. cbn [app]. rewrite (exp_part_text X bound Hb).
    change (dec_char d :: dec_chars (r0 :: r')) with (dec_chars (d :: r0 :: r')). rewrite undec_chars. f_equal.
    unfold lenZ, dec_chars. rewrite map_length. reflexivity.
Qed.

Lemma post_exp full : (length full <= 60)%nat -> In 101 full -> post full = full.
Proof.
  intros Hl Hin. unfold post. rewrite (firstn_all2 full) by exact Hl.
  assert (E : existsb (Z.eqb 101) full = true) by (apply existsb_exists; exists 101; split; [exact Hin | reflexivity]).
  rewrite E. reflexivity.
Qed.

Lemma nat_digits_len n k : 0 <= n < 10 ^ k -> 1 <= k -> lenZ (nat_digits 10 n) <= k.
Proof.
  intros Hn Hk. destruct (Z.eq_dec n 0) as [-> | Hn0]; [cbn; lia|].
  destruct (nat_digits_pos_head n ltac:(lia)) as (x & r & E & Hx).
  destruct (nat_digits_spec 10 n ltac:(lia) ltac:(lia)) as (V & O & _). rewrite E in *.
  pose proof (digits_lower x r O Hx) as L. rewrite V in L. rewrite lenZ_cons.
  assert (10 ^ lenZ r < 10 ^ k) by lia. apply Z.pow_lt_mono_r_iff in H; lia.
Qed.

Lemma exp_text_len X : Z.abs X <= 999 -> (length (exp_text X) <= 4)%nat.
Proof.
  intros H. unfold exp_text. cbn [length]. rewrite app_length. unfold dec_chars. rewrite map_length.
  pose proof (nat_digits_len (Z.abs X) 3 ltac:(change (10 ^ 3) with 1000; lia) ltac:(lia)) as L. unfold lenZ in L.
  destruct (Z.abs X <? 10) eqn:E.
  - apply Z.ltb_lt in E. pose proof (nat_digits_len (Z.abs X) 1 ltac:(change (10 ^ 1) with 10; lia) ltac:(lia)) as L1.
    unfold lenZ in L1. cbn [length]. lia.
  - cbn [length]. lia.
Qed.

Definition neg_of (sg : bytes) : bool := match sg with [] => false | _ => true end.

Lemma fixed_read sg I Fr : is_sign sg -> I <> [] -> digits_ok 10 (I ++ Fr) -> (length I <= 25)%nat -> (length Fr <= 25)%nat ->
  exists Fd, strtod_bits (post (sg ++ dec_chars I ++ match Fr with [] => [] | _ => 46 :: dec_chars Fr end)) =
               b64_of_decimal (neg_of sg) (I ++ Fd) (- lenZ Fd) /\
             digits_ok 10 (I ++ Fd) /\ 1 <= lenZ Fd <= 60 /\
             val_be 10 (I ++ Fd) * 10 ^ lenZ Fr = val_be 10 (I ++ Fr) * 10 ^ lenZ Fd.
Proof.
  intros Hsg HneI Ho HlI HlF.
  assert (Em : match Fr with [] => [] | _ => 46 :: dec_chars Fr end = if lenZ Fr =? 0 then [] else 46 :: dec_chars Fr).
  { destruct Fr as [|f Fr']; [reflexivity|]. rewrite lenZ_cons. pose proof (lenZ_nonneg Fr').
    replace (lenZ Fr' + 1 =? 0) with false by (symmetry; apply Z.eqb_neq; lia). reflexivity. }
  rewrite Em.
  assert (Hlen : (length (sg ++ dec_chars I ++ (if (lenZ Fr =? 0)%Z then [] else 46%Z :: dec_chars Fr)) <= 60)%nat).
  { rewrite !app_length. unfold dec_chars. rewrite map_length.
    assert (length sg <= 1)%nat by (destruct Hsg as [-> | ->]; cbn; lia).
    destruct (lenZ Fr =? 0); cbn [length]; rewrite ?map_length; lia. }
  destruct (post_shape sg I Fr (lenZ Fr) Hsg Ho eq_refl Hlen) as (Fd & Epost & HneF & HoF & HlF' & Hv).
  assert (HoI : digits_ok 10 I) by (unfold digits_ok in *; apply Forall_app in Ho; tauto).
  exists Fd. rewrite Epost, (strtod_shape sg I Fd Hsg HneI HoI HneF HoF).
  split; [reflexivity|]. split; [apply digits_ok_app; assumption|]. split; [|exact Hv].
  destruct Fd; [congruence|]. rewrite lenZ_cons in *. pose proof (lenZ_nonneg Fd). lia.
Qed.

Lemma fixed_value (D ds Fd Fr I : list Z) z :
  -400 <= z -> 0 <= z + lenZ Fr -> lenZ Fd <= 400 ->
  val_be 10 D * 10 ^ lenZ Fr = val_be 10 (I ++ Fr) * 10 ^ lenZ Fd ->
  val_be 10 (I ++ Fr) = val_be 10 ds * 10 ^ (z + lenZ Fr) ->
  val_be 10 D * p10 (- lenZ Fd) = val_be 10 ds * p10 z.
Proof.
  intros Hz Hc HG Hv C1. pose proof (lenZ_nonneg Fr) as HF. pose proof (lenZ_nonneg Fd) as HG0.
  set (F := lenZ Fr) in *. set (G := lenZ Fd) in *.
  pose proof (pow10_pos F HF) as PF. pose proof (pow10_pos G HG0) as PG.
  assert (H1 : p10 (- G) * 10 ^ G = 10 ^ 400) by (unfold p10; rewrite <- pow10_add by lia; f_equal; lia).
  assert (H2 : p10 z * 10 ^ F = 10 ^ (z + F) * 10 ^ 400) by (unfold p10; rewrite <- !pow10_add by lia; f_equal; lia).
  apply (Z.mul_reg_r _ _ (10 ^ F * 10 ^ G)); [nia|].
  transitivity ((val_be 10 D * 10 ^ F) * (p10 (- G) * 10 ^ G)); [ring|]. rewrite Hv, H1, C1.
  transitivity (val_be 10 ds * (p10 z * 10 ^ F) * 10 ^ G); [rewrite H2; ring | ring].
Qed.

Theorem gtext_read sg P ds X : is_sign sg -> digits_ok 10 ds -> ds <> [] -> (length ds <= 20)%nat ->
  1 <= P <= 20 -> -380 <= X <= 360 ->
  exists D E, strtod_bits (post (sg ++ gtext P ds X)) = b64_of_decimal (neg_of sg) D E /\
              digits_ok 10 D /\ (length D <= 80)%nat /\ -400 <= E /\ lenZ D + E <= 400 /\
              val_be 10 D * p10 E = val_be 10 ds * p10 (X + 1 - lenZ ds).
Proof.
  intros Hsg Ho Hne Hlds HP HX. unfold gtext.
  assert (Hlz : 1 <= lenZ ds <= 20) by (unfold lenZ; destruct ds; [congruence | cbn [length] in *; lia]).
  destruct ((X <? P) && (-4 <=? X)) eqn:Ec.
  - apply andb_true_iff in Ec as [Ec1 Ec2]. apply Z.ltb_lt in Ec1. apply Z.leb_le in Ec2.
    destruct (0 <=? X) eqn:E0.
    + (* digits, point, digits *)
      apply Z.leb_le in E0. cbv zeta. set (ni := Z.to_nat (X + 1)).
      set (pad := ds ++ zeros (X + 1 - lenZ ds)). set (I := firstn ni pad). set (Fr := skipn ni ds).
      assert (Hpl : (ni <= length pad)%nat).
      { unfold pad, ni. rewrite app_length, zeros_length. unfold lenZ in *. lia. }
      assert (HI : I <> []).
      { intros E. apply (f_equal (@length Z)) in E. unfold I in E. rewrite firstn_length in E. cbn in E. unfold ni in *. lia. }
      assert (HlI : (length I <= 20)%nat) by (unfold I; rewrite firstn_length; unfold ni; lia).
      assert (HlF : (length Fr <= 25)%nat) by (unfold Fr; rewrite skipn_length; lia).
      assert (Hcases : (I = pad /\ Fr = [] /\ lenZ ds <= X + 1) \/ (I ++ Fr = ds /\ X + 1 < lenZ ds /\ lenZ Fr = lenZ ds - (X + 1))).
      { destruct (Z_le_gt_dec (lenZ ds) (X + 1)) as [L|L].
        - left. split; [|split; [|exact L]].
          + unfold I. apply firstn_all2. unfold pad, ni. rewrite app_length, zeros_length. unfold lenZ in *. lia.
          + unfold Fr. apply skipn_all2. unfold ni, lenZ in *. lia.
        - right. assert (Ep : pad = ds).
          { unfold pad, zeros. replace (Z.to_nat (X + 1 - lenZ ds)) with 0%nat by lia. apply app_nil_r. }
          unfold I. rewrite Ep. split; [apply firstn_skipn|]. split; [lia|].
          unfold Fr, lenZ. rewrite skipn_length. unfold ni, lenZ in *. lia. }
      assert (HoIF : digits_ok 10 (I ++ Fr)).
      { destruct Hcases as [(E1 & E2 & _) | (E1 & _)].
        - rewrite E1, E2, app_nil_r. unfold pad. apply digits_ok_app; [exact Ho | apply zeros_ok].
        - rewrite E1. exact Ho. }
      destruct (fixed_read sg I Fr Hsg HI HoIF ltac:(lia) HlF) as (Fd & Eread & HoD & HlFd & Hv).
      exists (I ++ Fd), (- lenZ Fd). split; [exact Eread|]. split; [exact HoD|].
      split; [rewrite app_length; unfold lenZ in HlFd; lia|]. split; [lia|]. split; [rewrite lenZ_app; unfold lenZ; lia|].
      apply (fixed_value (I ++ Fd) ds Fd Fr I (X + 1 - lenZ ds)); try lia; try exact Hv.
      * destruct Hcases as [(_ & E2 & L) | (_ & L & E3)]; [rewrite E2; cbn; lia | lia].
      * destruct Hcases as [(E1 & E2 & L) | (E1 & L & E3)].
        -- rewrite E1, E2, app_nil_r. unfold pad. rewrite val_be_app, val_be_zeros, lenZ_zeros by lia.
           change (lenZ (@nil Z)) with 0. rewrite !Z.add_0_r. reflexivity.
        -- rewrite E1, E3. replace (X + 1 - lenZ ds + (lenZ ds - (X + 1))) with 0 by lia. rewrite Z.pow_0_r. lia.
    + (* 0.000ddd *)
      apply Z.leb_gt in E0. set (Fr := zeros (- X - 1) ++ ds).
      change ([48; 46] ++ dec_chars Fr) with (dec_chars [0] ++ 46 :: dec_chars Fr).
      assert (HFr : Fr <> []) by (unfold Fr; destruct ds; [congruence | destruct (zeros (- X - 1)); discriminate]).
      assert (Em : 46 :: dec_chars Fr = match Fr with [] => [] | _ => 46 :: dec_chars Fr end) by (destruct Fr; [congruence | reflexivity]).
      rewrite Em.
      assert (HoIF : digits_ok 10 ([0] ++ Fr)).
      { apply digits_ok_app; [repeat constructor; lia|]. unfold Fr. apply digits_ok_app; [apply zeros_ok | exact Ho]. }
      assert (HlFr : lenZ Fr = - X - 1 + lenZ ds) by (unfold Fr; rewrite lenZ_app, lenZ_zeros by lia; reflexivity).
      destruct (fixed_read sg [0] Fr Hsg ltac:(discriminate) HoIF ltac:(cbn; lia) ltac:(unfold lenZ in *; lia))
        as (Fd & Eread & HoD & HlFd & Hv).
      exists ([0] ++ Fd), (- lenZ Fd). split; [exact Eread|]. split; [exact HoD|].
      split; [rewrite app_length; unfold lenZ in HlFd; cbn [length]; lia|]. split; [lia|]. split; [rewrite lenZ_app; change (lenZ [0]) with 1; lia|].
      apply (fixed_value ([0] ++ Fd) ds Fd Fr [0] (X + 1 - lenZ ds)); try lia; try exact Hv.
      rewrite HlFr. replace (X + 1 - lenZ ds + (- X - 1 + lenZ ds)) with 0 by lia. rewrite Z.pow_0_r, Z.mul_1_r.
      unfold Fr. rewrite !val_be_app, val_be_zeros. cbn. lia.
  - (* d.ddde+XX *)
    destruct ds as [|d r]; [congruence|].
    set (body := dec_char d :: (match r with [] => [] | _ => 46 :: dec_chars r end) ++ 101 :: exp_text X).
    assert (Hlen : (length (sg ++ body) <= 60)%nat).
    { unfold body. rewrite app_length. cbn [length]. rewrite app_length. cbn [length].
      pose proof (exp_text_len X ltac:(lia)). assert (length sg <= 1)%nat by (destruct Hsg as [-> | ->]; cbn; lia).
      assert (length (match r with [] => [] | _ => 46%Z :: dec_chars r end) <= 21)%nat.
      { destruct r; [cbn; lia|]. cbn [length]. unfold dec_chars. rewrite map_length. cbn [length] in *. lia. }
      lia. }
    rewrite post_exp; [|exact Hlen | apply in_or_app; right; unfold body; right; apply in_or_app; right; left; reflexivity].
    inversion Ho as [|? ? Hd Hr]; subst.
    assert (Hc : 48 <= dec_char d <= 57) by (unfold dec_char; lia).
    assert (Hx : forall x r', (match r with [] => [] | _ => 46 :: dec_chars r end) ++ 101 :: exp_text X = x :: r' ->
                 (x =? 120) || (x =? 88) = false).
    { intros x r' E. destruct r; cbn [app] in E; injection E as <- _; reflexivity. }
    destruct (strtod_bits_digit (dec_char d) _ Hc Hx) as [E1 E2].
    exists (d :: r), (X - lenZ r). split.
    { rewrite <- (strtod_exp_style (neg_of sg) d r X Ho ltac:(lia)). destruct Hsg as [-> | ->]; [exact E1 | exact E2]. }
    split; [exact Ho|]. split; [lia|]. rewrite lenZ_cons in *. split; [lia|]. split; [lia|]. do 2 f_equal. lia.
Qed.

(* ------------------------------------------------------------------------------------------ *)
(* grid rounding across a decade boundary                                                      *)
(* ------------------------------------------------------------------------------------------ *)
(* v, w: two values; g: the grid step in the decade [lo, hi) of v, lo = P1 * g, hi = 10 * lo;  q: v rounded;
   w at least as near to q * g as v is. *)

Lemma cross_same v w g q : 0 < g -> is_rne v g q -> Z.abs (w - q * g) <= Z.abs (v - q * g) -> is_rne w g q.
Proof. intros Hg [H1 H2] Hn. split; [lia|]. intros E. apply H2. lia. Qed.

Lemma cross_up v w g P1 q : 0 < g -> 1 <= P1 ->
  v < 10 * (P1 * g) -> 10 * (P1 * g) <= w ->
  is_rne v g q -> Z.abs (w - q * g) <= Z.abs (v - q * g) ->
  q = 10 * P1 /\ is_rne w (10 * g) P1 /\ w < 10 * (10 * (P1 * g)).
Proof.
  intros Hg HP Hv Hw [H1 _] Hn.
  assert (Hq1 : q <= 10 * P1) by (destruct (Z_le_gt_dec q (10 * P1)) as [L|L]; [exact L | exfalso; nia]).
  assert (Hq2 : 10 * P1 <= q) by (destruct (Z_le_gt_dec (10 * P1) q) as [L|L]; [exact L | exfalso; nia]).
  assert (Eq : q = 10 * P1) by lia. subst q. split; [reflexivity|].
  replace (10 * P1 * g) with (10 * (P1 * g)) in * by ring. set (hi := 10 * (P1 * g)) in *.
  assert (Hd : 2 * (w - hi) <= g) by lia.
  split; [|nia]. unfold is_rne. replace (P1 * (10 * g)) with hi by (unfold hi; ring).
  split; [lia | intros E; lia].
Qed.

Lemma cross_down v w g' P1 q ul : 0 < g' -> 1 <= P1 -> 0 < ul ->
  let g := 10 * g' in
  P1 * g <= v -> w < P1 * g ->
  is_rne v g q -> Z.abs (w - q * g) <= Z.abs (v - q * g) ->
  Z.abs (w - q * g) <= Z.abs (w + ul - q * g) ->           (* the next double is not nearer *)
  (10 * P1 * ul <= w \/ 3 * (10 * P1 * ul) <= 2 * v) ->    (* 10^P ulps fit below *)
  q = P1 /\ is_rne w g' (10 * P1) /\ P1 * g <= 10 * w.
Proof.
  intros Hg HP Hul g Hv Hw [H1 _] Hn Hnx Hfit. assert (Hg10 : 0 < g) by (unfold g; lia).
  assert (Hq1 : P1 <= q) by (destruct (Z_le_gt_dec P1 q) as [L|L]; [exact L | exfalso; nia]).
  assert (Hq2 : q <= P1) by (destruct (Z_le_gt_dec q P1) as [L|L]; [exact L | exfalso; nia]).
  assert (Eq : q = P1) by lia. subst q. split; [reflexivity|].
  set (lo := P1 * g) in *.
  assert (Hlo : lo = 10 * P1 * g') by (unfold lo, g; ring).
  assert (Hglo : g <= lo) by (unfold lo; nia).
  assert (H2 : 2 * (lo - w) <= ul) by lia.
  assert (H3 : 10 * P1 * ul <= lo) by (destruct Hfit as [F|F]; lia).
  assert (H4 : ul <= g') by nia.
  split; [|nia]. unfold is_rne. rewrite <- Hlo. split; [lia|]. intros _.
  rewrite Z.even_mul. reflexivity.
Qed.

(* ------------------------------------------------------------------------------------------ *)
(* the digits of the rounded decimal                                                           *)
(* ------------------------------------------------------------------------------------------ *)

Lemma drop_zeros_spec l : exists k, 0 <= k /\ l = zeros k ++ drop_zeros l.
Proof.
  induction l as [|x r IH]; [exists 0; split; [lia | reflexivity]|].
  destruct x as [|p|p]; try (exists 0; split; [lia | reflexivity]).
  destruct IH as (k & Hk & E). exists (1 + k). split; [lia|]. cbn [drop_zeros].
  rewrite <- zeros_app by lia. change (zeros 1) with [0]. cbn [app]. f_equal. exact E.
Qed.

Lemma strip_tz_spec l : exists k, 0 <= k /\ l = strip_tz l ++ zeros k.
Proof.
  destruct (drop_zeros_spec (rev l)) as (k & Hk & E). exists k. split; [exact Hk|].
  unfold strip_tz. apply (f_equal (@rev Z)) in E. rewrite rev_involutive, rev_app_distr, rev_zeros in E. exact E.
Qed.

Lemma gdigits_facts q s P : 0 < q <= 10 ^ P -> 1 <= P <= 15 -> -400 <= s ->
  let nd := nat_digits 10 q in
  let ds := strip_tz nd in
  let X := s + lenZ nd - 1 in
  digits_ok 10 ds /\ ds <> [] /\ (length ds <= 20)%nat /\ s <= X <= s + 15 /\
  val_be 10 ds * p10 (X + 1 - lenZ ds) = q * p10 s.
Proof.
  intros Hq HP Hs nd ds X.
  destruct (nat_digits_spec 10 q ltac:(lia) ltac:(lia)) as (V & O & Hne). fold nd in V, O, Hne.
  destruct (strip_tz_spec nd) as (k & Hk & E). fold ds in E.
  assert (Hlen : 1 <= lenZ nd <= 16).
  { split; [destruct nd; [congruence | rewrite lenZ_cons; pose proof (lenZ_nonneg nd); lia]|].
    assert (lenZ nd <= P + 1); [|lia]. apply (nat_digits_len q (P + 1)); [|lia]. rewrite Z.pow_add_r by lia.
    change (10 ^ 1) with 10. pose proof (pow10_pos P ltac:(lia)). lia. }
  assert (Hod : digits_ok 10 ds) by (rewrite E in O; unfold digits_ok in *; apply Forall_app in O; tauto).
  assert (Hl : lenZ nd = lenZ ds + k) by (rewrite E at 1; rewrite lenZ_app, lenZ_zeros by lia; reflexivity).
  split; [exact Hod|]. split; [apply nat_digits_nonempty_strip; lia|].
  split; [pose proof (lenZ_nonneg ds); unfold lenZ in *; lia|]. split; [unfold X; lia|].
  assert (Ev : q = val_be 10 ds * 10 ^ k).
  { rewrite <- V. rewrite E at 1. rewrite val_be_app, val_be_zeros, lenZ_zeros by lia. lia. }
  replace (X + 1 - lenZ ds) with (s + k) by (unfold X; lia). rewrite p10_shift, Ev by lia. ring.
Qed.

Lemma b64_canonical b : two52 <= b64_m b \/ b64_e b = -1074.
Proof.
  unfold b64_m, b64_e. destruct (b64_exp b =? 0); [right; reflexivity | left].
  unfold b64_man. pose proof (Z.mod_pos_bound b two52 ltac:(reflexivity)). lia.
Qed.

Lemma pow10_15 P : 1 <= P <= 15 -> 10 ^ P <= 1000000000000000.
Proof. intros H. change 1000000000000000 with (10 ^ 15). apply Z.pow_le_mono_r; lia. Qed.

(* ------------------------------------------------------------------------------------------ *)
(* the theorem                                                                                 *)
(* ------------------------------------------------------------------------------------------ *)

Lemma fmt_g_of_decade prec y x q : b64_is_finite y = true -> 0 < Vof y -> 1 <= gP prec <= 15 -> -390 <= x <= 390 ->
  in_decade (Vof y) x -> rne10 (Vof y) (x - gP prec + 1) q ->
  fmt_g prec y = sign_text y ++ gtext_of (gP prec) q (x - gP prec + 1).
Proof.
  intros Hfin HV HP Hx Hdec Hr.
  assert (Hm : b64_m y <> 0) by (intros E; unfold Vof in HV; rewrite E in HV; lia).
  destruct (fmt_g_canon prec y Hfin Hm ltac:(lia)) as (x0 & q0 & Hx0 & Hdec0 & Hr0 & _ & Etxt).
  assert (x0 = x) by (apply (in_decade_unique (Vof y)); try assumption; lia). subst x0.
  assert (q0 = q).
  { unfold rne10 in *. pose proof (p10_pos (x - gP prec + 1) ltac:(lia)) as Pp.
    apply (is_rne_unique _ _ _ _ (Z.mul_pos_pos _ _ Pp T_pos) Hr0 Hr). }
  subst q0. exact Etxt.
Qed.

Theorem fmt_g_reread b prec :
  b64_is_finite b = true -> b64_exp b <> 0 -> 1 <= gP prec <= 15 ->
  b64_is_finite (strtod_bits (post (fmt_g prec b))) = true ->
  fmt_g prec (strtod_bits (post (fmt_g prec b))) = fmt_g prec b.
Proof.
  intros Hfin Hnorm HP Hyfin.
  pose proof (b64_m_range b) as Hmr. pose proof (b64_e_range b Hfin) as He.
  assert (T52 : two52 = 4503599627370496) by reflexivity. assert (T53 : two53 = 9007199254740992) by reflexivity.
  assert (Hm52 : two52 <= b64_m b).
  { unfold b64_m. replace (b64_exp b =? 0) with false by (symmetry; apply Z.eqb_neq; exact Hnorm).
    unfold b64_man. pose proof (Z.mod_pos_bound b two52 ltac:(reflexivity)). lia. }
  destruct (fmt_g_canon prec b Hfin ltac:(lia) ltac:(lia)) as (x0 & q & Hx0 & Hdec & Hr & Hq & Etxt).
  set (P := gP prec) in *. set (s := x0 - P + 1) in *. rewrite Etxt in *.
  pose proof T_pos as PT. pose proof (pow10_pos 400 ltac:(lia)) as P4. set (B4 := 10 ^ 400) in *.
  pose proof (p10_pos s ltac:(unfold s; lia)) as Ps.
  set (g := p10 s * T) in *. assert (Hg : 0 < g) by (unfold g; apply Z.mul_pos_pos; assumption).
  set (P1 := 10 ^ (P - 1)). assert (HP1 : 1 <= P1) by (unfold P1; pose proof (pow10_pos (P - 1) ltac:(lia)); lia).
  assert (E10P : 10 * P1 = 10 ^ P).
  { unfold P1. replace P with (1 + (P - 1)) at 2 by lia. rewrite pow10_add by lia. reflexivity. }
  pose proof (pow10_15 P HP) as HP15.
  set (V := Vof b) in *. set (v := V * B4) in *.
  assert (HV52 : two52 <= V).
  { unfold V, Vof. pose proof (pow2_pos (b64_e b + 1074) ltac:(lia)) as Pe. clear - Hm52 Pe T52. nia. }
  assert (Elo : p10 x0 * T = P1 * g).
  { unfold g, P1. replace x0 with (s + (P - 1)) by (unfold s; lia). rewrite p10_shift by (unfold s; lia). ring. }
  assert (Ehi : p10 (x0 + 1) * T = 10 * (P1 * g)) by (rewrite p10_succ by lia; rewrite <- Elo; ring).
  destruct Hdec as [Hlo Hhi]. unfold le10, lt10 in Hlo, Hhi. change (10 ^ 400) with B4 in Hlo, Hhi. fold v in Hlo, Hhi. rewrite Elo in Hlo. rewrite Ehi in Hhi.
  unfold rne10 in Hr. change (10 ^ 400) with B4 in Hr. fold v g in Hr.
  assert (Hq10 : q <= 10 ^ P).
  { rewrite <- E10P. destruct Hr as [H1 _]. destruct (Z_le_gt_dec q (10 * P1)) as [L|L]; [exact L|]. exfalso.
    clearbody v g P1. clear - H1 Hhi L Hg HP1. nia. }
  (* the text and what strtod makes of it *)
  unfold gtext_of in *.
  destruct (gdigits_facts q s P ltac:(lia) HP ltac:(unfold s; lia)) as (Hod & Hne & Hlds & HX & Hval). cbv zeta in *.
  set (ds := strip_tz (nat_digits 10 q)) in *. set (X := s + lenZ (nat_digits 10 q) - 1) in *.
  set (sg := sign_text b) in *.
  assert (Hsg : is_sign sg) by (unfold sg, sign_text, is_sign; destruct (b64_sign b =? 1); auto).
  destruct (gtext_read sg P ds X Hsg Hod Hne Hlds ltac:(lia) ltac:(unfold s in HX; lia))
    as (D & E & Eread & HoD & HlD & HE & HE2 & HvalD).
  rewrite Eread in *. set (y := b64_of_decimal (neg_of sg) D E) in *.
  assert (ER : val_be 10 D * p10 E * T = q * g) by (rewrite HvalD, Hval; unfold g; ring).
  assert (HRv : 2 * v <= 3 * (q * g)) by (destruct Hr as [H1 _]; clearbody v g; clear - H1 Hq Hg; assert (g <= q * g) by (rewrite <- (Z.mul_1_l g) at 1; apply Z.mul_le_mono_nonneg_r; lia); lia).
  destruct (b64_of_decimal_nearest_gen (neg_of sg) D E HoD HlD HE HE2 Hyfin) as [Hsy Hnear].
  { right. rewrite ER. change (10 ^ 400) with B4. unfold v in HRv. clearbody B4 g V. clear - HRv HV52 P4 T52.
    assert (two52 * B4 <= V * B4) by (apply Z.mul_le_mono_nonneg_r; lia). lia. }
  fold y in Hsy, Hnear. rewrite ER in Hnear. change (10 ^ 400) with B4 in Hnear.
  assert (Esg : sgn_text (neg_of sg) = sg) by (destruct Hsg as [-> | ->]; reflexivity).
  rewrite Esg in Hsy.
  set (w := Vof y * B4) in *.
  assert (Hn : Z.abs (w - q * g) <= Z.abs (v - q * g)).
  { unfold v, V, Vof. apply Hnear; lia. }
  assert (Hfin2 : forall x q', 0 < w -> -390 <= x <= 390 -> p10 x * T <= w -> w < p10 (x + 1) * T ->
            is_rne w (p10 (x - P + 1) * T) q' -> gtext_of P q' (x - P + 1) = gtext_of P q s ->
            fmt_g prec y = sg ++ gtext P ds X).
  { intros x q' Hw Hx H1 H2 H3 H4. assert (HVy : 0 < Vof y) by (unfold w in Hw; clearbody B4; clear - Hw P4; nia).
    rewrite (fmt_g_of_decade prec y x q' Hyfin HVy HP Hx).
    - fold P. rewrite Hsy, H4. reflexivity.
    - split; [exact H1 | exact H2].
    - exact H3. }
  destruct (Z_lt_le_dec w (P1 * g)) as [Clo | Clo].
  - (* below the decade of b: possible only when the decimal is its lower end *)
    pose proof (b64_m_range y) as Hmy. pose proof (b64_e_range y Hyfin) as Hey.
    set (ky := b64_e y + 1074) in *. pose proof (pow2_pos ky ltac:(unfold ky; lia)) as Pky.
    set (ul := 2 ^ ky * B4). assert (Hul : 0 < ul) by (unfold ul; apply Z.mul_pos_pos; assumption).
    assert (Ew : w = b64_m y * ul) by (unfold w, Vof, ul; fold ky; ring).
    assert (Hnx : Z.abs (w - q * g) <= Z.abs (w + ul - q * g)).
    { destruct (Z_lt_le_dec (b64_m y + 1) two53) as [L|L].
      - replace (w + ul) with ((b64_m y + 1) * 2 ^ ky * B4) by (rewrite Ew; unfold ul; ring).
        apply Hnear; [lia | unfold ky; lia].
      - replace (w + ul) with (two52 * 2 ^ (ky + 1) * B4).
        + apply Hnear; [lia | unfold ky; lia].
        + assert (Emy : b64_m y = two53 - 1) by lia. rewrite Ew, Emy. unfold ul. rewrite pow2_add by (unfold ky; lia).
          change (2 ^ 1) with 2. rewrite T52, T53. ring. }
    assert (Hfit : 10 * P1 * ul <= w \/ 3 * (10 * P1 * ul) <= 2 * v).
    { rewrite E10P. destruct (b64_canonical y) as [C | C].
      - left. rewrite Ew. apply Z.mul_le_mono_nonneg_r; lia.
      - right. unfold ul, ky. rewrite C. change (2 ^ (-1074 + 1074)) with 1. unfold v. clearbody B4 V. clear - HP15 HV52 T52 P4. nia. }
    set (g' := p10 (s - 1) * T).
    assert (Eg : g = 10 * g').
    { unfold g, g'. replace s with ((s - 1) + 1) at 1 by lia. rewrite p10_succ by (unfold s; lia). ring. }
    assert (Hg' : 0 < g') by lia.
    rewrite Eg in Hr, Hn, Hnx, Hlo, Clo.
    destruct (cross_down v w g' P1 q ul Hg' HP1 Hul Hlo Clo Hr Hn Hnx Hfit) as (Eq & Hr' & Hwl).
    apply (Hfin2 (x0 - 1) (10 * P1)).
    + clearbody g' P1 w. clear - Hwl HP1 Hg'. nia.
    + clear - Hx0. lia.
    + replace x0 with ((x0 - 1) + 1) in Elo by lia. rewrite p10_succ in Elo by lia. rewrite Eg in Elo. clear - Elo Hwl. lia.
    + replace (x0 - 1 + 1) with x0 by lia. rewrite Elo, Eg. exact Clo.
    + replace (x0 - 1 - P + 1) with (s - 1) by (unfold s; lia). exact Hr'.
    + replace (x0 - 1 - P + 1) with (s - 1) by (unfold s; lia). rewrite Eq.
      rewrite <- (gtext_of_shift P P1 s 1 ltac:(lia) ltac:(lia)). change (10 ^ 1) with 10. f_equal. ring.
  - destruct (Z_lt_le_dec w (10 * (P1 * g))) as [Chi | Chi].
    + (* the same decade *)
      pose proof (cross_same v w g q Hg Hr Hn) as Hr'.
      apply (Hfin2 x0 q).
      * clearbody g P1 w. clear - Clo HP1 Hg. nia.
      * clear - Hx0. lia.
      * rewrite Elo. exact Clo.
      * rewrite Ehi. exact Chi.
      * exact Hr'.
      * reflexivity.
    + (* above: the decimal is the upper end *)
      destruct (cross_up v w g P1 q Hg HP1 Hhi Chi Hr Hn) as (Eq & Hr' & Hwh).
      apply (Hfin2 (x0 + 1) P1).
      * clearbody g P1 w. clear - Chi HP1 Hg. nia.
      * clear - Hx0. lia.
      * rewrite Ehi. exact Chi.
      * replace (p10 (x0 + 1 + 1) * T) with (10 * (p10 (x0 + 1) * T)) by (rewrite (p10_succ (x0 + 1)) by lia; ring).
        rewrite Ehi. exact Hwh.
      * replace (x0 + 1 - P + 1) with (s + 1) by (unfold s; lia). rewrite p10_succ by (unfold s; lia).
        replace (10 * p10 s * T) with (10 * g) by (unfold g; ring). exact Hr'.
      * replace (x0 + 1 - P + 1) with (s + 1) by (unfold s; lia). rewrite Eq.
        rewrite <- (gtext_of_shift P P1 (s + 1) 1 ltac:(lia) ltac:(lia)). change (10 ^ 1) with 10.
        f_equal; [ring | lia].
Qed.

Lemma gP_range prec : prec <= 15 -> 1 <= gP prec <= 15.
Proof.
  intros H. unfold gP, norm_prec. destruct (prec <? 0) eqn:E; [cbn; lia|]. apply Z.ltb_ge in E.
  destruct (prec =? 0) eqn:E0; [lia|]. apply Z.eqb_neq in E0. lia.
Qed.

Lemma fmt_g_zero prec b : b64_is_finite b = true -> b64_m b = 0 -> fmt_g prec b = sign_text b ++ [48].
Proof. intros Hfin Hm. unfold fmt_g. rewrite Hfin, Hm. reflexivity. Qed.

(* zero, or a normal number *)
Definition normal_or_zero (b : Z) : Prop := b64_exp b <> 0 \/ b64_man b = 0.

Lemma fmt_g_reread_zero b prec : b64_is_finite b = true -> b64_m b = 0 ->
  fmt_g prec (strtod_bits (post (fmt_g prec b))) = fmt_g prec b.
Proof.
  intros Hfin Hm. rewrite (fmt_g_zero prec b Hfin Hm). unfold sign_text. destruct (b64_sign b =? 1).
  - change (strtod_bits (post ([45] ++ [48]))) with two63. apply (fmt_g_zero prec two63); reflexivity.
  - change (strtod_bits (post ([] ++ [48]))) with 0. apply (fmt_g_zero prec 0); reflexivity.
Qed.

(* C01, floats, scientific notation *)
Theorem sci_notation_stable b prec :
  b64_is_finite b = true ->
  normal_or_zero b ->                                   (* not a denormal (finding F1c otherwise) *)
  prec <= 15 ->                                         (* at most 15 significant digits; 0 counts as 1, negative as 6 *)
  let t := format_double b prec true 64 in
  b64_is_finite (strtod_bits t) = true ->               (* the rendering does not round above DBL_MAX (finding F1b otherwise) *)
  format_double (strtod_bits t) prec true 64 = t.
Proof.
  intros Hfin Hnz Hp t Hy. unfold t in *. rewrite !format_double_post_g in *. f_equal.
  destruct (Z.eq_dec (b64_exp b) 0) as [E0 | E0].
  - apply fmt_g_reread_zero; [exact Hfin|]. destruct Hnz as [N | N]; [contradiction|].
    unfold b64_m. rewrite E0. exact N.
  - apply fmt_g_reread; [exact Hfin | exact E0 | apply gP_range; exact Hp | exact Hy].
Qed.

(* ------------------------------------------------------------------------------------------ *)
(* in the vocabulary of WriteStable.v                                                          *)
(* ------------------------------------------------------------------------------------------ *)
From LC Require Import Tree TreeFacts LexWrite WriteStable Run.
From LC.gen Require Import Consts.

Theorem float_stable_sci (c : cfg) b :
  get_option c OPT_SCI = true ->                        (* scientific notation allowed *)
  b64_is_finite b = true -> normal_or_zero b -> c_prec c <= 15 ->
  b64_is_finite (atof (ftext fmt_double c b)) = true -> (* read back as a finite number *)
  ftext fmt_double c (atof (ftext fmt_double c b)) = ftext fmt_double c b.
Proof.
  intros Hsci Hfin Hnz Hp. unfold ftext, fmt_double, atof. rewrite Hsci. change FBUF_SIZE with 64.
  intros Hy. apply sci_notation_stable; assumption.
Qed.

(* a tree whose integer formats are 0 or 1 and whose floats are finite, zero or normal, and read back finite *)
Fixpoint sci_ok (c : cfg) (s : setting) : Prop :=
  let 'Setting _ pl kids f _ _ _ := s in
  (fix all (l : list setting) : Prop := match l with [] => True | e :: r => sci_ok c e /\ all r end) kids /\
  match pl with
  | PInt _ | PInt64 _ => f = 0 \/ f = 1
  | PFloat b => b64_is_finite b = true /\ normal_or_zero b /\ b64_is_finite (atof (ftext fmt_double c b)) = true
  | _ => True
  end.

Lemma all_sci_ok c kids :
  (fix all (l : list setting) : Prop := match l with [] => True | e :: r => sci_ok c e /\ all r end) kids <-> Forall (sci_ok c) kids.
Proof.
  induction kids as [|e r IH]; [split; constructor|]. rewrite IH.
  split; [intros [A B]; constructor; assumption | intros H; inversion H; split; assumption].
Qed.

Theorem stable_sci (c : cfg) : get_option c OPT_SCI = true -> c_prec c <= 15 ->
  forall s, sci_ok c s -> stable fmt_double atof c s.
Proof.
  intros Hsci Hprec. induction s as [n pl kids f h l fi IH] using setting_ind'. intros [Hk Hp].
  apply all_sci_ok in Hk. cbn [stable]. split.
  - apply all_stable. clear Hp. induction IH as [|e r He _ IHr]; [constructor|].
    inversion Hk; subst. constructor; [apply He; assumption | apply IHr; assumption].
  - destruct pl; try exact Hp; try exact I. destruct Hp as (Hfin & Hnz & Hy). apply float_stable_sci; assumption.
Qed.

(* ------------------------------------------------------------------------------------------ *)
(* instances                                                                                   *)
(* ------------------------------------------------------------------------------------------ *)

Definition rerender_g (b prec : Z) : Prop :=
  format_double (strtod_bits (format_double b prec true 64)) prec true 64 = format_double b prec true 64.

Ltac nz := first [left; vm_compute; discriminate | right; vm_compute; reflexivity].
Ltac by_theorem_g := apply sci_notation_stable; [vm_compute; reflexivity | nz | lia | vm_compute; reflexivity].

(* by the theorem (the premises are evaluated, the conclusion is not) *)
Example sci_examples :
  rerender_g 4621537642612260864 1 /\                   (* 9.5 -> "1e+01" *)
  rerender_g 4622100592565682176 2 /\                   (* 10.5 -> "10" (tie to even), ".0" appended *)
  rerender_g 4612811918334230528 1 /\                   (* 2.5 -> "2" *)
  rerender_g 4615063718147915776 1 /\                   (* 3.5 -> "4" *)
  rerender_g 4681608326524436480 5 /\                   (* 99999.5 -> "1e+05" *)
  rerender_g 4696837142389719040 6 /\                   (* 999999.5 -> "1e+06" *)
  rerender_g 13876516240719085568 4 /\                  (* -1234.5 -> "-1234" *)
  rerender_g 4950912854734297223 6 /\                   (* 9.999999e22 -> "1e+23" *)
  rerender_g 4950912855330343670 15 /\                  (* 1e23 (below 10^23) -> "1e+23" *)
  rerender_g 4950912855330343671 15 /\                  (* the double above 10^23 -> "1e+23", read back below 10^23 *)
  rerender_g 4547007122018943789 6 /\                   (* 0.0001 -> "0.0001" *)
  rerender_g 4532020583610935537 6 /\                   (* 0.00001 -> "1e-05" *)
  rerender_g 4546638187137469598 1 /\                   (* 9.5e-5 -> "0.0001" *)
  rerender_g 4728057454347157504 6 /\                   (* 123456789 -> "1.23457e+08" *)
  rerender_g 4831355200913801216 15 /\                  (* 1e15 -> "1e+15" *)
  rerender_g 4591870180066957722 15 /\                  (* 0.1 *)
  rerender_g 4599676419421066581 0 /\                   (* 1/3, precision 0 counts as 1 *)
  rerender_g 4599676419421066581 (-3) /\                (* 1/3, precision omitted: 6 *)
  rerender_g 4503599627370496 15 /\                     (* DBL_MIN, the least normal number *)
  rerender_g 9218868437227405307 15 /\                  (* the largest double whose 15 digits stay below DBL_MAX *)
  rerender_g 9218868437227405311 14 /\                  (* DBL_MAX itself on 14 digits: 1.7976931348623e+308 *)
  rerender_g 9223372036854775808 6 /\                   (* -0.0 -> "-0.0" *)
  rerender_g 0 15.                                      (* 0.0 *)
Proof. unfold rerender_g. repeat match goal with |- _ /\ _ => split end; by_theorem_g. Qed.

(* each hypothesis is needed *)
Example sci_hypotheses_needed :
  (* F1c, a denormal: 21 * 2^-1074 on 2 digits is "1e-322", read back as 20 * 2^-1074, rendered "9.9e-323" *)
  (b64_is_finite 21 = true /\ b64_is_finite (strtod_bits (format_double 21 2 true 64)) = true /\ ~ rerender_g 21 2) /\
  (* F1b, DBL_MAX on 15 digits: "1.79769313486232e+308" is read back as +inf *)
  (b64_is_finite 9218868437227405311 = true /\ normal_or_zero 9218868437227405311 /\
   b64_is_finite (strtod_bits (format_double 9218868437227405311 15 true 64)) = false /\ ~ rerender_g 9218868437227405311 15) /\
  (* 16 digits: the double above 10^23 is rendered "1e+23", read back as the double below 10^23, rendered
     "9.999999999999999e+22": the step across the decade is finer than half an ulp *)
  (b64_is_finite 4950912855330343671 = true /\ normal_or_zero 4950912855330343671 /\
   b64_is_finite (strtod_bits (format_double 4950912855330343671 16 true 64)) = true /\ ~ rerender_g 4950912855330343671 16).
Proof.
  unfold rerender_g. split; [|split].
  - split; [reflexivity|]. split; [vm_compute; reflexivity|]. vm_compute. intros E. discriminate E.
  - split; [reflexivity|]. split; [left; vm_compute; discriminate|]. split; [vm_compute; reflexivity|].
    vm_compute. intros E. discriminate E.
  - split; [reflexivity|]. split; [left; vm_compute; discriminate|]. split; [vm_compute; reflexivity|].
    vm_compute. intros E. discriminate E.
Qed.

Print Assumptions sci_notation_stable.
Print Assumptions float_stable_sci.
Print Assumptions stable_sci.
Print Assumptions fmt_g_canon.
Print Assumptions b64_of_decimal_nearest_gen.
Print Assumptions gtext_read.
Print Assumptions cross_down.
