(* StdioFacts.v — config_write_file never reports success for an incomplete file, over the buffered stream of
   StdioModel.v (lemmas behind Properties_C12): for every text, every buffer size, every schedule of write(2)
   outcomes and both values of the FSYNC option, success means that the whole serialisation reached the file, and
   success is reported exactly when no write failed (a transient failure included), the requested fsync succeeded
   and the close succeeded.  The sticky error indicator is what makes this true: the two variants that do not
   consult it are refuted. *)
From Coq Require Import List ZArith Bool Lia.
Import ListNotations.
From LC Require Import Base StdioModel.

(* ---- write(2) ---- *)
Lemma dev_write_ok : forall sc dev d sc' dev' ok,
  dev_write sc dev d = (sc', dev', ok) -> ok = true -> dev' = dev ++ d.
Proof.
  induction sc as [|w r IH]; intros dev d sc' dev' ok H Hok.
  - destruct d; cbn [dev_write] in H; injection H as _ <- _; [rewrite app_nil_r|]; reflexivity.
  - destruct d as [|x d0]; [cbn [dev_write] in H; injection H as _ <- _; rewrite app_nil_r; reflexivity|].
    destruct w as [|k|]; cbn [dev_write] in H.
    + injection H as _ <- _. reflexivity.
    + rewrite (IH _ _ _ _ _ H Hok), <- app_assoc, firstn_skipn. reflexivity.
    + injection H as _ _ <-. discriminate Hok.
Qed.

(* ---- the invariant: the indicator is set exactly when a write has failed; as long as none has, the device and
   the buffer together hold what has been put ---- *)
Definition inv (st : stream) (emitted : bytes) : Prop :=
  st_err st = negb (Nat.eqb (st_fails st) 0) /\ (st_fails st = 0 -> st_dev st ++ st_buf st = emitted).

Lemma s_flush_spec st em st' ok : s_flush st = (st', ok) -> inv st em ->
  inv st' em /\ st_buf st' = [] /\
  (ok = true -> st_fails st' = st_fails st) /\ (ok = false -> st_fails st' = S (st_fails st)).
Proof.
  unfold s_flush. intros H (I1 & I2). destruct (st_buf st) as [|x b0] eqn:Eb.
  - injection H as <- <-. split; [split; [exact I1 | rewrite Eb; exact I2]|]. split; [exact Eb|]. split; [reflexivity | discriminate].
  - destruct (dev_write (st_sched st) (st_dev st) (x :: b0)) as [[sc dev] okw] eqn:Ew. destruct okw; injection H as <- <-.
    + pose proof (dev_write_ok _ _ _ _ _ _ Ew eq_refl) as Ed. cbn [st_err st_fails st_dev st_buf].
      split; [split; [exact I1 | intros F; rewrite app_nil_r, Ed; exact (I2 F)]|]. split; [reflexivity|]. split; [reflexivity | discriminate].
    + cbn [st_err st_fails st_dev st_buf]. split; [split; [reflexivity | discriminate]|]. split; [reflexivity|]. split; [discriminate | reflexivity].
Qed.

Lemma s_flush_empty st : st_buf st = [] -> s_flush st = (st, true).
Proof. intros E. unfold s_flush. rewrite E. reflexivity. Qed.

Lemma s_putc_inv B st em b : inv st em -> inv (s_putc B st b) (em ++ [b]) /\ st_fails st <= st_fails (s_putc B st b).
Proof.
  intros Hi. unfold s_putc. destruct (Nat.leb B (length (st_buf st))).
  - destruct (s_flush st) as [st1 ok] eqn:Ef. destruct (s_flush_spec st em st1 ok Ef Hi) as ((J1 & J2) & Jb & Jt & Jf).
    destruct ok.
    + specialize (Jt eq_refl). split; [|cbn [st_fails]; lia]. split; cbn [st_err st_fails st_dev st_buf]; [exact J1|].
      intros F. specialize (J2 F). rewrite Jb, app_nil_r in J2. rewrite J2. reflexivity.
    + specialize (Jf eq_refl). split; [|lia]. split; [exact J1 | intros F; lia].
  - destruct Hi as (I1 & I2). split; [|cbn [st_fails]; lia]. split; cbn [st_err st_fails st_dev st_buf]; [exact I1|].
    intros F. rewrite app_assoc, (I2 F). reflexivity.
Qed.

Lemma s_put_inv B : forall bs st em, inv st em -> inv (s_put B st bs) (em ++ bs) /\ st_fails st <= st_fails (s_put B st bs).
Proof.
  induction bs as [|b r IH]; intros st em Hi; [rewrite app_nil_r; split; [exact Hi | cbn; lia]|].
  unfold s_put. cbn [fold_left]. destruct (s_putc_inv B st em b Hi) as [H1 H2].
  destruct (IH _ _ H1) as [H3 H4]. unfold s_put in H3, H4. rewrite <- app_assoc in H3. split; [exact H3 | lia].
Qed.

Lemma inv_open sched : inv (s_open sched) [].
Proof. split; [reflexivity | intros _; reflexivity]. Qed.

(* ---- config_write_file ---- *)
(* (a)+(b) in one: the result, the ghost count of failed writes and the content of the file *)
Theorem write_file_run_spec B sched fsync_opt fsync_ok close_ok text :
  let '(ok, st) := write_file_run B sched fsync_opt fsync_ok close_ok text in
  (ok = true <-> (st_fails st = 0 /\ (fsync_opt = true -> fsync_ok = true) /\ close_ok = true)) /\
  (st_fails st = 0 -> st_dev st = text /\ st_buf st = []).
Proof.
  unfold write_file_run, s_ferror, s_close.
  destruct (s_put_inv B text (s_open sched) [] (inv_open sched)) as [H1 _]. cbn [app] in H1.
  set (st1 := s_put B (s_open sched) text) in *. pose proof H1 as Hinv. destruct H1 as (E1 & D1).
  destruct (st_err st1) eqn:Ee; cbn [negb andb].
  - (* a write failed while the text was produced *)
    assert (F1 : st_fails st1 <> 0) by (intros F; rewrite F in E1; discriminate E1).
    destruct (s_flush st1) as [st3 fl] eqn:Ef.
    destruct (s_flush_spec st1 text st3 fl Ef Hinv) as (_ & _ & Jt & Jf).
    assert (F3 : st_fails st3 <> 0) by (destruct fl; [rewrite (Jt eq_refl); exact F1 | rewrite (Jf eq_refl); discriminate]).
    split; [split; [discriminate | intros (F & _); contradiction] | intros F; contradiction].
  - assert (F1 : st_fails st1 = 0) by (destruct (st_fails st1); [reflexivity | discriminate E1]).
    destruct fsync_opt.
    + (* fflush, fsync, fclose *)
      destruct (s_flush st1) as [st2 fl] eqn:Ef.
      destruct (s_flush_spec st1 text st2 fl Ef Hinv) as ((J1 & J2) & Jb & Jt & Jf).
      rewrite (s_flush_empty st2 Jb). destruct fl.
      * specialize (Jt eq_refl). rewrite F1 in Jt. specialize (J2 Jt). rewrite Jb, app_nil_r in J2.
        split; [|intros _; split; assumption].
        destruct fsync_ok, close_ok; cbn [andb]; split; try discriminate; try (intros (_ & A & C); try discriminate C; discriminate (A eq_refl)); auto.
      * specialize (Jf eq_refl). split; [split; [discriminate | intros (F & _); rewrite F in Jf; discriminate Jf] | intros F; rewrite F in Jf; discriminate Jf].
    + (* fclose alone *)
      destruct (s_flush st1) as [st3 fl] eqn:Ef.
      destruct (s_flush_spec st1 text st3 fl Ef Hinv) as ((J1 & J2) & Jb & Jt & Jf).
      destruct fl.
      * specialize (Jt eq_refl). rewrite F1 in Jt. specialize (J2 Jt). rewrite Jb, app_nil_r in J2.
        split; [|intros _; split; assumption].
        destruct close_ok; cbn [andb]; split; try discriminate; try (intros (_ & _ & C); discriminate C); auto. intros _. split; [exact Jt|]. split; [discriminate | reflexivity].
      * specialize (Jf eq_refl). split; [split; [discriminate | intros (F & _); rewrite F in Jf; discriminate Jf] | intros F; rewrite F in Jf; discriminate Jf].
Qed.

(* (a) success means that the whole serialisation reached the file, in order, nothing dropped *)
Theorem write_file_success_complete B sched fsync_opt fsync_ok close_ok text :
  fst (write_file_model B sched fsync_opt fsync_ok close_ok text) = true ->
  snd (write_file_model B sched fsync_opt fsync_ok close_ok text) = text.
Proof.
  unfold write_file_model. pose proof (write_file_run_spec B sched fsync_opt fsync_ok close_ok text) as H.
  destruct (write_file_run B sched fsync_opt fsync_ok close_ok text) as [ok st]. cbn [fst snd]. destruct H as [H1 H2].
  intros Hok. apply H1 in Hok as (F & _). exact (proj1 (H2 F)).
Qed.

(* (b) success is reported exactly when no write(2) call failed - a transient failure followed by successful writes
   included -, the fsync (when requested) succeeded and the close succeeded *)
Theorem write_file_success_iff B sched fsync_opt fsync_ok close_ok text :
  fst (write_file_run B sched fsync_opt fsync_ok close_ok text) = true <->
  (st_fails (snd (write_file_run B sched fsync_opt fsync_ok close_ok text)) = 0 /\
   (fsync_opt = true -> fsync_ok = true) /\ close_ok = true).
Proof.
  pose proof (write_file_run_spec B sched fsync_opt fsync_ok close_ok text) as H.
  destruct (write_file_run B sched fsync_opt fsync_ok close_ok text) as [ok st]. exact (proj1 H).
Qed.

Corollary write_file_any_failure B sched fsync_opt fsync_ok close_ok text :
  st_fails (snd (write_file_run B sched fsync_opt fsync_ok close_ok text)) <> 0 ->
  fst (write_file_model B sched fsync_opt fsync_ok close_ok text) = false.
Proof.
  intros F. unfold write_file_model. pose proof (write_file_success_iff B sched fsync_opt fsync_ok close_ok text) as H.
  destruct (write_file_run B sched fsync_opt fsync_ok close_ok text) as [ok st]. cbn [fst snd] in *.
  destruct ok; [|reflexivity]. exfalso. apply F. apply H. reflexivity.
Qed.

(* ---- (c) when every write succeeds ---- *)
Definition all_ok (sc : list wres) : Prop := Forall (fun w => w = WAll) sc.
Definition clean (st : stream) : Prop := st_fails st = 0 /\ all_ok (st_sched st).

Lemma dev_write_nil sc dev : dev_write sc dev [] = (sc, dev, true).
Proof. destruct sc; reflexivity. Qed.

Lemma dev_write_all_ok sc dev d : all_ok sc -> exists sc', dev_write sc dev d = (sc', dev ++ d, true) /\ all_ok sc'.
Proof.
  intros H. destruct d as [|x d0]; [exists sc; rewrite app_nil_r, dev_write_nil; split; [reflexivity | exact H]|].
  destruct sc as [|w r]; [exists (@nil wres); split; [reflexivity | constructor]|].
  inversion H as [|? ? Hw Hr]; subst. exists r. split; [reflexivity | exact Hr].
Qed.

Lemma s_flush_clean st : clean st -> clean (fst (s_flush st)) /\ snd (s_flush st) = true.
Proof.
  intros (F & A). unfold s_flush. destruct (st_buf st) as [|x b0] eqn:Eb; [split; [split; assumption | reflexivity]|].
  destruct (dev_write_all_ok (st_sched st) (st_dev st) (x :: b0) A) as (sc' & E & A'). rewrite E. cbn [fst snd]. split; [split; assumption | reflexivity].
Qed.

Lemma s_putc_clean B st b : clean st -> clean (s_putc B st b).
Proof.
  intros H. unfold s_putc. destruct (Nat.leb B (length (st_buf st))); [|exact H].
  destruct (s_flush_clean st H) as [H1 H2]. destruct (s_flush st) as [st1 ok]. cbn [fst snd] in *. subst ok. exact H1.
Qed.

Lemma s_put_clean B : forall bs st, clean st -> clean (s_put B st bs).
Proof. induction bs as [|b r IH]; intros st H; [exact H|]. unfold s_put. cbn [fold_left]. apply IH. apply s_putc_clean. exact H. Qed.

Theorem write_file_all_ok B sched fsync_opt text :
  all_ok sched -> write_file_model B sched fsync_opt true true text = (true, text).
Proof.
  intros A.
  assert (F : st_fails (snd (write_file_run B sched fsync_opt true true text)) = 0).
  { unfold write_file_run, s_ferror, s_close.
    pose proof (s_put_clean B text (s_open sched) (conj eq_refl A)) as C1. set (st1 := s_put B (s_open sched) text) in *.
    destruct (negb (st_err st1) && fsync_opt).
    - destruct (s_flush_clean st1 C1) as [C2 _]. destruct (s_flush st1) as [st2 fl]. cbn [fst] in C2.
      destruct (s_flush_clean st2 C2) as [C3 _]. destruct (s_flush st2) as [st3 fl3]. cbn [fst snd] in *. exact (proj1 C3).
    - destruct (s_flush_clean st1 C1) as [C3 _]. destruct (s_flush st1) as [st3 fl3]. cbn [fst snd] in *. exact (proj1 C3). }
  unfold write_file_model. pose proof (write_file_run_spec B sched fsync_opt true true text) as H.
  destruct (write_file_run B sched fsync_opt true true text) as [ok st]. cbn [snd] in F. destruct H as [H1 H2].
  rewrite (proj1 (H2 F)). f_equal. apply H1. auto.
Qed.

(* ---- the ghost counter is the number of WFail entries of the schedule that were consumed ---- *)
Fixpoint fails_in (l : list wres) : nat :=
  match l with [] => 0 | WFail :: r => S (fails_in r) | _ :: r => fails_in r end.

Lemma fails_in_app a b : fails_in (a ++ b) = fails_in a + fails_in b.
Proof. induction a as [|w r IH]; [reflexivity|]. destruct w; cbn [app fails_in]; rewrite IH; reflexivity. Qed.

Lemma dev_write_sched : forall sc dev d sc' dev' ok, dev_write sc dev d = (sc', dev', ok) ->
  exists used, sc = used ++ sc' /\ fails_in used = (if ok then 0 else 1).
Proof.
  induction sc as [|w r IH]; intros dev d sc' dev' ok H.
  - destruct d; cbn [dev_write] in H; injection H as <- _ <-; exists []; auto.
  - destruct d as [|x d0]; [cbn [dev_write] in H; injection H as <- _ <-; exists []; auto|].
    destruct w as [|k|]; cbn [dev_write] in H.
    + injection H as <- _ <-. exists [WAll]. auto.
    + destruct (IH _ _ _ _ _ H) as (used & -> & F). exists (WPartial k :: used). auto.
    + injection H as <- _ <-. exists [WFail]. auto.
Qed.

Definition tracked (sched0 : list wres) (st : stream) : Prop :=
  exists used, sched0 = used ++ st_sched st /\ st_fails st = fails_in used.

Lemma s_flush_tracked sched0 st : tracked sched0 st -> tracked sched0 (fst (s_flush st)).
Proof.
  intros (used & E & F). unfold s_flush. destruct (st_buf st) as [|x b0]; [exists used; auto|].
  destruct (dev_write (st_sched st) (st_dev st) (x :: b0)) as [[sc dev] ok] eqn:Ew.
  destruct (dev_write_sched _ _ _ _ _ _ Ew) as (u2 & E2 & F2).
  destruct ok; cbn [fst]; exists (used ++ u2); cbn [st_sched st_fails]; rewrite fails_in_app, F2, <- app_assoc, <- E2; split; auto; lia.
Qed.

Lemma s_putc_tracked sched0 B st b : tracked sched0 st -> tracked sched0 (s_putc B st b).
Proof.
  intros H. unfold s_putc. destruct (Nat.leb B (length (st_buf st))); [|exact H].
  pose proof (s_flush_tracked sched0 st H) as H1. destruct (s_flush st) as [st1 ok]. cbn [fst] in H1. destruct ok; exact H1.
Qed.

Lemma s_put_tracked sched0 B : forall bs st, tracked sched0 st -> tracked sched0 (s_put B st bs).
Proof. induction bs as [|b r IH]; intros st H; [exact H|]. unfold s_put. cbn [fold_left]. apply IH. apply s_putc_tracked. exact H. Qed.

Theorem write_file_fails_schedule B sched fsync_opt fsync_ok close_ok text :
  tracked sched (snd (write_file_run B sched fsync_opt fsync_ok close_ok text)).
Proof.
  unfold write_file_run, s_close, s_ferror.
  assert (T1 : tracked sched (s_put B (s_open sched) text)) by (apply s_put_tracked; exists []; auto).
  set (st1 := s_put B (s_open sched) text) in *.
  destruct (negb (st_err st1) && fsync_opt).
  - pose proof (s_flush_tracked sched st1 T1) as T2. destruct (s_flush st1) as [st2 fl]. cbn [fst] in T2.
    pose proof (s_flush_tracked sched st2 T2) as T3. destruct (s_flush st2) as [st3 fl3]. exact T3.
  - pose proof (s_flush_tracked sched st1 T1) as T3. destruct (s_flush st1) as [st3 fl3]. exact T3.
Qed.

(* (c) in general: a schedule without WFail (partial writes allowed) loses nothing, and the result is that of the
   fsync and of the close *)
Theorem write_file_no_fail B sched fsync_opt fsync_ok close_ok text :
  fails_in sched = 0 ->
  write_file_model B sched fsync_opt fsync_ok close_ok text = ((if fsync_opt then fsync_ok else true) && close_ok, text).
Proof.
  intros Hs. destruct (write_file_fails_schedule B sched fsync_opt fsync_ok close_ok text) as (used & E & F).
  unfold write_file_model. pose proof (write_file_run_spec B sched fsync_opt fsync_ok close_ok text) as H.
  destruct (write_file_run B sched fsync_opt fsync_ok close_ok text) as [ok st]. cbn [snd] in E, F. destruct H as [H1 H2].
  assert (F0 : st_fails st = 0) by (rewrite E, fails_in_app in Hs; lia).
  rewrite (proj1 (H2 F0)). f_equal.
  destruct ok.
  - destruct (proj1 H1 eq_refl) as (_ & A & ->). destruct fsync_opt; [rewrite (A eq_refl)|]; reflexivity.
  - destruct fsync_opt, fsync_ok, close_ok; try reflexivity; exfalso;
      assert (X : false = true) by (apply H1; split; [exact F0 | split; [auto | reflexivity]]); discriminate X.
Qed.

(* ---- examples: B = 4, a text of 10 bytes ---- *)
Definition ex_text : bytes := [48; 49; 50; 51; 52; 53; 54; 55; 56; 57]%Z.

Example ex_all_ok : write_file_model 4 [] true true true ex_text = (true, ex_text).
Proof. vm_compute. reflexivity. Qed.

(* a transient failure: the second write(2) fails, everything after it succeeds.  The bytes 4..8 are lost, the
   indicator is set, and failure is reported - with and without the FSYNC option *)
Example ex_transient :
  write_file_model 4 [WAll; WFail; WAll; WAll] false true true ex_text = (false, [48; 49; 50; 51; 57]%Z) /\
  write_file_model 4 [WAll; WFail; WAll; WAll] true true true ex_text = (false, [48; 49; 50; 51; 57]%Z).
Proof. vm_compute. auto. Qed.

(* partial writes are retried: nothing is lost *)
Example ex_partial : write_file_model 4 [WPartial 1; WPartial 2; WAll; WPartial 0; WAll] true true true ex_text = (true, ex_text).
Proof. vm_compute. reflexivity. Qed.

(* a partial write followed by a failure loses the rest of that flush (and the byte that triggered the flush) *)
Example ex_partial_then_fail : write_file_model 4 [WPartial 1; WFail] false true true ex_text = (false, [48; 53; 54; 55; 56; 57]%Z).
Proof. vm_compute. reflexivity. Qed.

(* the failures that leave the content complete are still failures *)
Example ex_fsync_fails : write_file_model 4 [] true false true ex_text = (false, ex_text).
Proof. vm_compute. reflexivity. Qed.
Example ex_close_fails : write_file_model 4 [] false true false ex_text = (false, ex_text).
Proof. vm_compute. reflexivity. Qed.
Example ex_close_flush_fails : write_file_model 4 [WAll; WAll; WFail] false true true ex_text = (false, [48; 49; 50; 51; 52; 53; 54; 55]%Z).
Proof. vm_compute. reflexivity. Qed.

(* ---- the variants that do not consult the sticky indicator report success for an incomplete file ---- *)
Example fflush_variant_refuted :
  write_file_fflush_variant 4 [WAll; WFail; WAll; WAll] false true true ex_text = (true, [48; 49; 50; 51; 57]%Z) /\
  write_file_fflush_variant 4 [WAll; WFail; WAll; WAll] true true true ex_text = (true, [48; 49; 50; 51; 57]%Z).
Proof. vm_compute. auto. Qed.

Example skip_variant_refuted :
  write_file_skip_variant 4 [WAll; WFail; WAll; WAll] true true true ex_text = (true, [48; 49; 50; 51; 57]%Z).
Proof. vm_compute. reflexivity. Qed.

Example close_variant_refuted :
  write_file_close_variant 4 [WAll; WFail; WAll; WAll] true ex_text = (true, [48; 49; 50; 51; 57]%Z).
Proof. vm_compute. reflexivity. Qed.

Print Assumptions write_file_run_spec.
Print Assumptions write_file_success_complete.
Print Assumptions write_file_success_iff.
Print Assumptions write_file_any_failure.
Print Assumptions write_file_all_ok.
Print Assumptions write_file_fails_schedule.
Print Assumptions write_file_no_fail.
