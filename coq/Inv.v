(* Inv.v — the well-formedness invariant of the setting tree (C04).  Definitions only. *)
From Coq Require Import List ZArith Bool.
Import ListNotations.
From LC Require Import Base Tree Lookup.
Local Open Scope Z_scope.

Definition is_none {A} (o : option A) : bool := match o with None => true | Some _ => false end.

(* local condition on one child, given its parent's payload *)
Definition kid_ok (ppl : payload) (k : setting) : bool :=
  match ppl with
  | PGroup => match s_name k with Some n => validate_name n | None => false end
  | PArray => is_none (s_name k) && ty_is_scalar (s_ty k)
  | PList => is_none (s_name k)
  | _ => false
  end.

Fixpoint nodup_names (l : list (option bytes)) : bool :=
  match l with
  | [] => true
  | x :: r => negb (existsb (obytes_eqb x) r) && nodup_names r
  end.

Definition same_type (ts : list ty) : bool :=
  match ts with
  | [] => true
  | t0 :: r => forallb (fun t => ty_eqb t t0) r
  end.

Definition kids_ok (ppl : payload) (kids : list setting) : bool :=
  forallb (kid_ok ppl) kids &&
  match ppl with
  | PGroup => nodup_names (map s_name kids)
  | PArray => same_type (map s_ty kids)
  | _ => true
  end.

Fixpoint wf (s : setting) : bool :=
  let 'Setting _ pl kids _ _ _ _ := s in
  (fix all (l : list setting) : bool :=
     match l with [] => true | k :: r => wf k && all r end) kids
  && kids_ok pl kids.

Definition root_ok (r : setting) : bool :=
  is_none (s_name r) && ty_eqb (s_ty r) TGroup.

Definition Inv (c : cfg) : Prop := wf (c_root c) = true /\ root_ok (c_root c) = true.
