(* Properties_C11.v — C11: reads release every file and buffer whatever point they fail at.
   Theorems only (proofs in LexFacts.v, ReadFacts.v).  The scanner model (Lexer.v: the compiled flex tables,
   the rule actions, the include stack of scanctx.c with push / next file / pop, over a virtual file system
   and any include function) records an LvOpen / LvClose event for every fopen / fclose of an included file
   and, with every token, the streams open after it; replay runs a list of such events on a stack of open
   streams and fails on a close that does not match the innermost open stream.

   Heap leaks (buffers, strings) and the validity of the file-name strings handed out are pointer-level
   facts outside the model; they are observed by LeakSanitizer / ASan and by /proc/self/fd counting in the
   harness on every run.  That on a successful read nothing is left to unwind (the last token read is the
   end-of-input token) is a parser fact not proved here: the model's file_events unwinds after the last
   token read in both cases, and the event traces are compared with the real ones on every run. *)
From Coq Require Import List ZArith Bool.
Import ListNotations.
From LC Require Import Base Tree ApiStep ScanAction FlexEngine Tokens Lexer LexFacts Parser Reader ReadFacts RwFacts FileNames.
Local Open Scope Z_scope.

(* the ledger invariant of the include machine, for every table set, action list, file system, include
   function, depth budget and text: every token carries exactly the streams opened and not yet closed by
   the events so far; closes match the innermost open stream; a buffer scanned to its end leaves the stack
   as it found it *)
Theorem C11_ledger : forall T rule_eol actions atof FS incdir incf max_depth d,
  scan_ok (lex_depth T rule_eol actions atof FS incdir incf max_depth d).
Proof. exact lex_depth_ok. Qed.
Print Assumptions C11_ledger.

(* wherever the parser stops reading (n tokens read: every syntax or semantic error position, every
   include failure, success), the events of the tokens read followed by the unwinding of the include stack
   are well bracketed and leave no stream open *)
Theorem C11_balanced_at_every_abort_point : forall toks n,
  toks_ok [] toks -> replay [] (file_events toks n) = Some [].
Proof. exact file_events_balanced. Qed.
Print Assumptions C11_balanced_at_every_abort_point.

(* hence for config_read_string / config_read on any input over any file system: when the read returns
   (CONFIG_TRUE or CONFIG_FALSE), every file the library opened has been closed, in LIFO order, and nothing
   else was closed (in particular not the caller's own stream, which never appears in the events) *)
Theorem C11_read_closes_everything : forall atof FS c top text,
  let r := config_read atof FS c top text in
  rd_out_ r = RdOk \/ rd_out_ r = RdFail ->
  exists fe, rd_events r = dlog (set_err c err0) (c_root c) ++ flat_map levent_to_event fe /\
             replay [] fe = Some [].
Proof. exact read_closes_everything. Qed.
Print Assumptions C11_read_closes_everything.

(* config_read_file adds its own fopen / fclose of the top-level file around that *)
Theorem C11_read_file_closes_everything : forall atof FS c path content,
  fs_lookup FS path = Some (FFile content) ->
  let r := config_read_file atof FS c path in
  rd_out_ r = RdOk \/ rd_out_ r = RdFail ->
  exists fe, rd_events r = [EvOpen path] ++ (dlog (set_err c err0) (c_root c) ++ flat_map levent_to_event fe) ++ [EvClose path] /\
             replay [] ([LvOpen path] ++ fe ++ [LvClose path]) = Some [].
Proof.
  intros atof FS c path content Hf. cbv zeta. unfold config_read_file. rewrite Hf. cbn [rd_out_ rd_events].
  intros H. destruct (read_closes_everything atof FS c (Some path) content H) as (fe & E & R).
  exists fe. split; [rewrite E; reflexivity|].
  cbn [app replay]. rewrite replay_app.
  assert (G : forall stk l, replay [] l = Some [] -> replay stk l = Some stk).
  { clear. intros stk l. assert (G2 : forall l s1 s2, replay s1 l = Some s2 -> replay (s1 ++ stk) l = Some (s2 ++ stk)).
    { intros l0; induction l0 as [|e r IH]; intros s1 s2 H; cbn [replay] in *; [inversion H; reflexivity|].
      destruct e; try (apply IH; exact H).
      - apply (IH (path :: s1)). exact H.
      - destruct s1 as [|g s]; [discriminate|]. cbn [app]. destruct (bytes_eqb path g); [apply IH; exact H | discriminate]. }
    intros H. exact (G2 l [] [] H). }
  rewrite (G [path] fe R). cbn [replay]. rewrite bytes_eqb_refl'. reflexivity.
Qed.
Print Assumptions C11_read_file_closes_everything.

(* a missing or unreadable top-level file: opened-and-closed (directory) or never opened *)
Theorem C11_read_file_unopenable : forall atof FS c path,
  (fs_lookup FS path = None -> rd_events (config_read_file atof FS c path) = []) /\
  (fs_lookup FS path = Some FDir -> rd_events (config_read_file atof FS c path) = [EvOpen path; EvClose path]).
Proof. intros. unfold config_read_file. split; intros ->; reflexivity. Qed.


(* ------------------------------------------------------------------------------------------------------- *)
(* the file names reported by errors and by settings remain valid until the configuration is cleared or     *)
(* destroyed (FileNames.v) : a name is valid iff it is an element of the vector that owns the strings         *)
(* (config->filenames = c_files); files_valid c = every setting's file and the error file are owned            *)
(* ------------------------------------------------------------------------------------------------------- *)

(* a read establishes it, from ANY configuration, whatever the point of failure *)
Theorem C11_read_names_valid : forall atof FS c top text,
  let r := config_read atof FS c top text in
  rd_out_ r = RdOk \/ rd_out_ r = RdFail -> files_valid (rd_cfg r).
Proof. exact config_read_files_valid. Qed.
Print Assumptions C11_read_names_valid.

Theorem C11_read_file_names_valid : forall atof FS c path,
  settings_valid c ->
  let r := config_read_file atof FS c path in
  rd_out_ r = RdOk \/ rd_out_ r = RdFail -> files_valid (rd_cfg r).
Proof. exact config_read_file_files_valid. Qed.
Print Assumptions C11_read_file_names_valid.

(* along the token stream the vector only grows, and every token's file is owned by it *)
Theorem C11_names_monotone : forall atof FS c top text i t,
  let toks := fst (lex_top atof FS c top text) in
  nth_error toks i = Some t ->
  okf (lt_nfiles t) top /\ okf (lt_nfiles t) (lt_file t) /\
  (forall j u, nth_error toks j = Some u -> (i <= j)%nat -> prefix (lt_nfiles t) (lt_nfiles u)).
Proof. exact lex_top_files_by_position. Qed.
Print Assumptions C11_names_monotone.

(* every API call keeps the settings' names valid; the error file too, except a config_clear made while an error file is
   set (the property promises validity only until the configuration is cleared) *)
Theorem C11_api_keeps_names_valid : forall c o,
  files_valid c -> (o = OClear -> e_file (c_err c) = None) -> files_valid (step_cfg c o).
Proof. exact api_step_files_valid. Qed.
Print Assumptions C11_api_keeps_names_valid.

(* hence in every history of reads, writes and API calls from config_init: the settings' names are always valid, and
   so is the error file as long as no config_clear is made while it is set *)
Theorem C11_names_valid_in_every_history : forall atof fmt strict FS c,
  reach atof fmt strict FS c -> settings_valid c /\ (strict = true -> files_valid c).
Proof.
  intros atof fmt strict FS c H. split; [exact (settings_valid_reachable atof fmt strict FS c H)|].
  intros ->. exact (files_valid_reachable atof fmt FS c H).
Qed.
Print Assumptions C11_names_valid_in_every_history.

(* the exception is real (model = code: config_clear frees the vector and leaves error_file alone): after a failed read of
   an included file, config_clear leaves config_error_file() pointing into the freed vector; and non-vacuity: a two-level
   include failing in the innermost file *)
Example C11_names_examples :
  files_validb ex_stale_cfg = false /\ e_file (c_err ex_stale_cfg) <> None /\ c_files ex_stale_cfg = [] /\
  rd_out_ ex_read = RdFail /\ e_file (c_err (rd_cfg ex_read)) = nth_error (c_files (rd_cfg ex_read)) 2 /\
  List.length (c_files (rd_cfg ex_read)) = 3%nat /\ files_validb (rd_cfg ex_read) = true /\
  files_validb ex_bad_cfg = false.
Proof. vm_compute. repeat split; try reflexivity; discriminate. Qed.
