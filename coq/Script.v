(* Script.v — text format of operation scripts and transcripts (DESIGN.md Appendix C).
   parse_aop : one script line -> API operation; show_* : transcript lines.  Definitions only. *)
From Coq Require Import List ZArith Bool.
Import ListNotations.
From LC Require Import Base Tree Fp Lookup Api ApiStep.
Local Open Scope Z_scope.

(* ---- splitting ---- *)
Fixpoint split_on (sep : Z) (cur : bytes) (s : bytes) : list bytes :=
  match s with
  | [] => [rev_append cur []]
  | c :: r => if c =? sep then rev_append cur [] :: split_on sep [] r else split_on sep (c :: cur) r
  end.

Definition words (s : bytes) : list bytes := split_on 32 [] s.
Definition lines (s : bytes) : list bytes := split_on 10 [] s.

(* ---- ASCII literals as byte lists ---- *)
Definition c_a := 97. Definition c_b := 98. Definition c_c := 99. Definition c_d := 100.
Definition c_e := 101. Definition c_f := 102. Definition c_g := 103. Definition c_h := 104.
Definition c_i := 105. Definition c_k := 107. Definition c_l := 108. Definition c_m := 109.
Definition c_n := 110. Definition c_o := 111. Definition c_p := 112. Definition c_r := 114.
Definition c_s := 115. Definition c_t := 116. Definition c_u := 117. Definition c_x := 120.
Definition c_y := 121.

(* ---- field parsers ---- *)
Definition parse_num (s : bytes) : Z :=
  match s with
  | 120 :: r => digits_val 16 r          (* x<hex> *)
  | _ => parse_dec s
  end.

Definition parse_hs (s : bytes) : option bytes :=
  match s with
  | 104 :: r => Some (hex_decode r)      (* h<hex> *)
  | _ => None                            (* "-" *)
  end.

Definition parse_hs_list (s : bytes) : list bytes :=
  map (fun w => match parse_hs w with Some b => b | None => [] end)
      (filter (fun w => negb (match w with [] => true | _ => false end)) (split_on 44 [] s)).

Definition parse_optnum (s : bytes) : option Z :=
  match s with
  | [45] => None
  | _ => Some (parse_num s)
  end.

Definition parse_path (s : bytes) : ipath :=
  match s with
  | [46] => []
  | _ => map (fun w => Z.to_nat (parse_dec w)) (split_on 47 [] s)
  end.

Definition parse_kind (s : bytes) : sk :=
  match s with
  | [105] => KInt | [108] => KInt64 | [102] => KFloat | [98] => KBool | _ => KString
  end.

Definition parse_arg (k : sk) (s : bytes) : arg :=
  match k with
  | KString => AS (parse_hs s)
  | _ => AZ (parse_num s)
  end.

Definition str (l : list Z) : bytes := l.

(* command words as byte lists *)
Definition w_init := [105;110;105;116].
Definition w_clear := [99;108;101;97;114].
Definition w_destroy := [100;101;115;116;114;111;121].
Definition w_options := [111;112;116;105;111;110;115].
Definition w_option := [111;112;116;105;111;110].
Definition w_getoption := [103;101;116;111;112;116;105;111;110].
Definition w_tab := [116;97;98].
Definition w_prec := [112;114;101;99].
Definition w_deffmt := [100;101;102;102;109;116].
Definition w_incdir := [105;110;99;100;105;114].
Definition w_incfn := [105;110;99;102;110].
Definition w_default := [100;101;102;97;117;108;116].
Definition w_multi := [109;117;108;116;105].
Definition w_fail := [102;97;105;108].
Definition w_empty := [101;109;112;116;121].
Definition w_null := [110;117;108;108].
Definition w_nested := [110;101;115;116;101;100].
Definition w_dtor := [100;116;111;114].
Definition w_chook := [99;104;111;111;107].
Definition w_hook := [104;111;111;107].
Definition w_add := [97;100;100].
Definition w_rm := [114;109].
Definition w_rmi := [114;109;105].
Definition w_set := [115;101;116].
Definition w_eset := [101;115;101;116].
Definition w_setfmt := [115;101;116;102;109;116].
Definition w_get := [103;101;116].
Definition w_eget := [101;103;101;116].
Definition w_getfmt := [103;101;116;102;109;116].
Definition w_mlook := [109;108;111;111;107].
Definition w_plook := [112;108;111;111;107].
Definition w_look := [108;111;111;107].
Definition w_clook := [99;108;111;111;107].
Definition w_member := [109;101;109;98;101;114].
Definition w_elem := [101;108;101;109].
Definition w_len := [108;101;110].
Definition w_idx := [105;100;120].
Definition w_name := [110;97;109;101].
Definition w_type := [116;121;112;101].
Definition w_isroot := [105;115;114;111;111;116].
Definition w_parent := [112;97;114;101;110;116].
Definition w_kind := [107;105;110;100].

Definition is_w (a b : bytes) : bool := bytes_eqb a b.

Definition hs_or_empty (o : option bytes) : bytes := match o with Some b => b | None => [] end.

Definition parse_aop (ws : list bytes) : option aop :=
  match ws with
  | [c] =>
      if is_w c w_init then Some OInit
      else if is_w c w_clear then Some OClear
      else if is_w c w_destroy then Some ODestroy
      else None
  | [c; a] =>
      if is_w c w_options then Some (OSetOptions (parse_num a))
      else if is_w c w_getoption then Some (OGetOption (parse_num a))
      else if is_w c w_tab then Some (OSetTab (parse_num a))
      else if is_w c w_prec then Some (OSetPrec (parse_num a))
      else if is_w c w_deffmt then Some (OSetDefFmt (parse_num a))
      else if is_w c w_incdir then Some (OSetIncDir (parse_hs a))
      else if is_w c w_incfn then
        (if is_w a w_default then Some (OSetIncFn IncDefault)
         else if is_w a w_empty then Some (OSetIncFn IncEmpty)
         else if is_w a w_null then Some (OSetIncFn IncNull)
         (* an include function that itself reads and writes another configuration, then answers like the default
            one: for the configuration being read it is the default function *)
         else if is_w a w_nested then Some (OSetIncFn IncDefault)
         else None)
      else if is_w c w_dtor then Some (OSetDtor (negb (parse_num a =? 0)))
      else if is_w c w_chook then Some (OSetCHook (parse_optnum a))
      else if is_w c w_getfmt then Some (OGetFormat (parse_path a))
      else if is_w c w_clook then Some (OCLookup (hs_or_empty (parse_hs a)))
      else if is_w c w_len then Some (OLength (parse_path a))
      else if is_w c w_idx then Some (OIndex (parse_path a))
      else if is_w c w_name then Some (OName (parse_path a))
      else if is_w c w_type then Some (OType (parse_path a))
      else if is_w c w_isroot then Some (OIsRoot (parse_path a))
      else if is_w c w_parent then Some (OParent (parse_path a))
      else if is_w c w_kind then Some (OIsKind (parse_path a))
      else None
  | [c; a; b] =>
      if is_w c w_option then Some (OSetOption (parse_num a) (parse_num b))
      else if is_w c w_incfn then
        (if is_w a w_multi then Some (OSetIncFn (IncMulti (parse_hs_list b)))
         else if is_w a w_fail then Some (OSetIncFn (IncFail (hs_or_empty (parse_hs b))))
         else None)
      else if is_w c w_hook then Some (OHook (parse_path a) (parse_optnum b))
      else if is_w c w_rm then Some (ORemove (parse_path a) (parse_hs b))
      else if is_w c w_rmi then Some (ORemoveElem (parse_path a) (parse_num b))
      else if is_w c w_setfmt then Some (OSetFormat (parse_path a) (parse_num b))
      else if is_w c w_get then Some (OGet (parse_kind a) (parse_path b))
      else if is_w c w_plook then Some (OPLook (parse_kind a) (hs_or_empty (parse_hs b)))
      else if is_w c w_look then Some (OLookup (parse_path a) (hs_or_empty (parse_hs b)))
      else if is_w c w_member then Some (OMember (parse_path a) (parse_hs b))
      else if is_w c w_elem then Some (OElem (parse_path a) (parse_num b))
      else None
  | [c; a; b; d] =>
      if is_w c w_add then Some (OAdd (parse_path a) (parse_hs b) (parse_num d))
      else if is_w c w_set then
        let k := parse_kind a in Some (OSet k (parse_path b) (parse_arg k d))
      else if is_w c w_eget then Some (OGetElem (parse_kind a) (parse_path b) (parse_num d))
      else if is_w c w_mlook then Some (OMLook (parse_kind a) (parse_path b) (parse_hs d))
      else None
  | [c; a; b; d; e] =>
      if is_w c w_eset then
        let k := parse_kind a in Some (OSetElem k (parse_path b) (parse_num d) (parse_arg k e))
      else None
  | _ => None
  end.

(* ---- transcript printing ---- *)
Definition show_hs (o : option bytes) : bytes :=
  match o with None => [45] | Some b => 104 :: hex_encode b end.

Definition show_optnum (o : option Z) : bytes :=
  match o with None => [45] | Some z => show_dec z end.

Definition pad_left (w : nat) (c : Z) (s : bytes) : bytes :=
  replicate (w - length s) c ++ s.

Definition show_hex16 (b : Z) : bytes :=
  pad_left 16 48 (map hex_char_lower (nat_digits 16 b)).

Fixpoint join (sep : Z) (l : list bytes) : bytes :=
  match l with
  | [] => []
  | [x] => x
  | x :: r => x ++ sep :: join sep r
  end.

Definition show_path (p : ipath) : bytes :=
  match p with
  | [] => [46]
  | _ => join 47 (map (fun i => show_dec (Z.of_nat i)) p)
  end.

Fixpoint show_ret (r : ret) : bytes :=
  match r with
  | RUnit => [117;110;105;116]
  | RInt z => 105 :: show_dec z
  | RFloat b => 102 :: show_hex16 b
  | RStr o => 115 :: show_hs o
  | RNode None => [110;45]
  | RNode (Some p) => 110 :: show_path p
  | RLook ok out =>
      107 :: show_dec ok ++ match out with Some o => 32 :: show_ret o | None => [] end
  | RBadHandle => [98;97;100;104;97;110;100;108;101]
  | RUnspec => [117;110;115;112;101;99]
  | RCrash => [99;114;97;115;104]
  end.

Definition show_event (e : event) : bytes :=
  match e with
  | EvDtor h => [76;32;100;116;111;114;32] ++ show_dec h                     (* "L dtor " *)
  | EvOpen p => [76;32;111;112;101;110;32] ++ show_hs (Some p)               (* "L open " *)
  | EvClose p => [76;32;99;108;111;115;101;32] ++ show_hs (Some p)           (* "L close " *)
  | EvIncl p => [76;32;105;110;99;108;32] ++ show_hs (Some p)                (* "L incl " *)
  end.

Definition show_payload (s : setting) : bytes :=
  match s_pl s with
  | PNone => [45]
  | PInt z => 105 :: show_dec z
  | PInt64 z => 108 :: show_dec z
  | PFloat b => 102 :: show_hex16 b
  | PBool z => 98 :: show_dec z
  | PStr o => 115 :: show_hs o
  | PGroup | PArray | PList => 97 :: show_dec (Z.of_nat (length (s_kids s)))
  end.

Definition show_node (p : ipath) (s : setting) : bytes :=
  join 32 [[84]; show_path p; show_hs (s_name s); show_dec (ty_code (s_ty s));
           show_dec (s_fmt s); show_payload s; show_optnum (s_hook s);
           show_dec (s_line s); show_hs (s_file s)].

(* preorder dump; [rp] is the reversed index path of [s] *)
Fixpoint dump_tree (rp : list nat) (s : setting) : list bytes :=
  show_node (rev_append rp []) s ::
  (let 'Setting _ _ kids _ _ _ _ := s in
   (fix go (i : nat) (l : list setting) : list bytes :=
      match l with
      | [] => []
      | k :: r => dump_tree (i :: rp) k ++ go (S i) r
      end) O kids).

Definition show_attrs (c : cfg) : bytes :=
  join 32 [[65]; show_dec (c_options c); show_dec (c_tab c); show_dec (c_prec c);
           show_dec (c_deffmt c); show_hs (c_incdir c);
           (if c_dtor c then [49] else [48]); show_optnum (c_hook c)].

Definition show_err (c : cfg) : bytes :=
  let e := c_err c in
  join 32 [[69]; show_dec (e_type e); show_hs (e_text e); show_hs (e_file e); show_dec (e_line e)].

Definition dump_cfg (c : cfg) : list bytes :=
  dump_tree [] (c_root c) ++ [show_attrs c; show_err c].

Definition show_result (r : ret) (ev : list event) : list bytes :=
  ([82; 32] ++ show_ret r) :: map show_event ev.
