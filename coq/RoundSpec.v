(* RoundSpec.v — the exact rounding primitives of FloatDec.v meet their specification: round-half-even.
   (towards: a float literal is stored as the correctly rounded double, C08) *)
From Coq Require Import List ZArith Bool Lia.
Import ListNotations.
From LC Require Import Base Fp FloatDec.
Local Open Scope Z_scope.

(* r is a / d rounded half-even (d > 0): within half a unit, and even on a tie *)
Definition is_rne (a d r : Z) : Prop :=
  2 * Z.abs (a - r * d) <= d /\ (2 * Z.abs (a - r * d) = d -> Z.even r = true).

Lemma is_rne_unique a d r1 r2 : 0 < d -> is_rne a d r1 -> is_rne a d r2 -> r1 = r2.
Proof.
  intros Hd [H1 E1] [H2 E2].
  assert (Hc : r1 = r2 \/ r1 = r2 + 1 \/ r2 = r1 + 1) by nia.
  destruct Hc as [H | [H | H]]; [exact H | |].
  - subst r1. assert (T1 : 2 * Z.abs (a - (r2 + 1) * d) = d) by nia. assert (T2 : 2 * Z.abs (a - r2 * d) = d) by nia.
    specialize (E1 T1). specialize (E2 T2). rewrite Z.even_add in E1. rewrite E2 in E1. discriminate E1.
  - subst r2. assert (T1 : 2 * Z.abs (a - (r1 + 1) * d) = d) by nia. assert (T2 : 2 * Z.abs (a - r1 * d) = d) by nia.
    specialize (E1 T2). specialize (E2 T1). rewrite Z.even_add in E2. rewrite E1 in E2. discriminate E2.
Qed.

Lemma shr_rne_spec a n : 0 <= a -> 0 < n -> is_rne a (2 ^ n) (shr_rne a n).
Proof.
  intros Ha Hn. unfold shr_rne. replace (n <=? 0) with false by (symmetry; apply Z.leb_gt; exact Hn).
  rewrite Z.shiftr_div_pow2 by lia. rewrite Z.land_ones by lia. rewrite Z.shiftl_1_l.
  set (d := 2 ^ n). set (h := 2 ^ (n - 1)).
  assert (Hd : d = 2 * h) by (unfold d, h; replace n with (n - 1 + 1) at 1 by lia; rewrite Z.pow_add_r by lia; lia).
  assert (Hh : 0 < h) by (unfold h; apply Z.pow_pos_nonneg; lia).
  pose proof (Z.div_mod a d ltac:(lia)) as Hdm. pose proof (Z.mod_pos_bound a d ltac:(lia)) as Hm.
  set (q := a / d) in *. set (r := a mod d) in *. unfold is_rne.
  destruct (r <? h) eqn:E1.
  - apply Z.ltb_lt in E1. split; [nia | intros T; nia].
  - apply Z.ltb_ge in E1. destruct (h <? r) eqn:E2.
    + apply Z.ltb_lt in E2. split; [nia | intros T; nia].
    + apply Z.ltb_ge in E2. assert (Er : r = h) by lia.
      destruct (Z.odd q) eqn:Eo.
      * split; [nia|]. intros _. rewrite Z.even_add. rewrite <- Z.negb_odd, Eo. reflexivity.
      * split; [nia|]. intros _. rewrite <- Z.negb_odd, Eo. reflexivity.
Qed.

(* ---- the encoding (u + 1074) * 2^52 + mant ---- *)
Lemma two52_pow : two52 = 2 ^ 52. Proof. reflexivity. Qed.
Lemma two53_pow : two53 = 2 ^ 53. Proof. reflexivity. Qed.

(* decoding: mantissa and exponent of the pattern denote mant * 2^u *)
Lemma encode_value u mant :
  -1074 <= u -> 0 <= mant <= two53 -> (mant < two52 -> u = -1074) ->
  let bits := (u + 1074) * two52 + mant in
  bits < b64_inf_bits ->
  b64_m bits * 2 ^ (b64_e bits + 1074) = mant * 2 ^ (u + 1074).
Proof.
  intros Hu Hm Hd bits Hfin. unfold b64_inf_bits in Hfin.
  assert (T52 : two52 = 4503599627370496) by reflexivity. assert (T53 : two53 = 9007199254740992) by reflexivity.
  assert (Hcases : mant < two52 \/ (two52 <= mant < two53) \/ mant = two53) by lia.
  destruct Hcases as [Hc | [Hc | Hc]].
  - (* denormal *)
    pose proof (Hd Hc) as Eu. subst u. unfold bits. replace (-1074 + 1074) with 0 by lia. rewrite Z.mul_0_l, Z.add_0_l.
    unfold b64_m, b64_e, b64_exp, b64_man. rewrite (Z.div_small mant two52) by lia. rewrite Z.mod_0_l by lia.
    cbn [Z.eqb]. rewrite Z.mod_small by lia. reflexivity.
  - (* normal *)
    assert (Eb : bits = (u + 1075) * two52 + (mant - two52)) by (unfold bits; lia).
    assert (Hexp : bits / two52 = u + 1075) by (rewrite Eb; rewrite Z.div_add_l by lia; rewrite Z.div_small by lia; lia).
    assert (Hman : bits mod two52 = mant - two52).
    { rewrite Eb. rewrite Z.add_comm, Z.mod_add by lia. apply Z.mod_small. lia. }
    assert (Hrange : 1 <= u + 1075 < 2047) by (unfold bits in Hfin; nia).
    unfold b64_m, b64_e, b64_exp, b64_man. rewrite Hexp, Hman. rewrite (Z.mod_small (u + 1075) 2048) by lia.
    replace (u + 1075 =? 0) with false by (symmetry; apply Z.eqb_neq; lia).
    replace (mant - two52 + two52) with mant by lia. replace (u + 1075 - 1075 + 1074) with (u + 1074) by lia. reflexivity.
  - (* carry into the next binade *)
    subst mant. assert (Eb : bits = (u + 1076) * two52 + 0) by (unfold bits; lia).
    assert (Hexp : bits / two52 = u + 1076) by (rewrite Eb; rewrite Z.div_add_l by lia; rewrite Z.div_0_l by lia; lia).
    assert (Hman : bits mod two52 = 0) by (rewrite Eb, Z.add_0_r; apply Z.mod_mul; lia).
    assert (Hrange : 1 <= u + 1076 < 2047) by (unfold bits in Hfin; nia).
    unfold b64_m, b64_e, b64_exp, b64_man. rewrite Hexp, Hman. rewrite (Z.mod_small (u + 1076) 2048) by lia.
    replace (u + 1076 =? 0) with false by (symmetry; apply Z.eqb_neq; lia).
    replace (u + 1076 - 1075 + 1074) with (u + 1074 + 1) by lia. rewrite Z.pow_add_r by lia. lia.
Qed.

(* ---- b64_round_pos: x * 2^t rounded to 53 significant bits (or to the denormal grid) ---- *)
Definition ulp_exp (x t : Z) : Z := Z.max (Z.log2 x + 1 + t - 53) (-1074).

(* mant is x * 2^t rounded half-even to a multiple of 2^u *)
Definition rounded_at (x t u mant : Z) : Prop :=
  if u <=? t then mant = x * 2 ^ (t - u) else is_rne x (2 ^ (u - t)) mant.

Lemma pow2_pos k : 0 <= k -> 0 < 2 ^ k.
Proof. intros H. apply Z.pow_pos_nonneg; lia. Qed.

Lemma pow2_add a b : 0 <= a -> 0 <= b -> 2 ^ (a + b) = 2 ^ a * 2 ^ b.
Proof. intros. apply Z.pow_add_r; assumption. Qed.

Lemma pow2_le a b : 0 <= a <= b -> 2 ^ a <= 2 ^ b.
Proof. intros. apply Z.pow_le_mono_r; lia. Qed.

Lemma rne_bounds x k n mant : 0 < k -> 0 < n -> 2 ^ (n - 1) <= x < 2 ^ n -> is_rne x (2 ^ k) mant ->
  (k <= n - 1 -> 2 ^ (n - 1 - k) <= mant <= 2 ^ (n - k)) /\ (n - 1 < k -> 0 <= mant <= 1).
Proof.
  intros Hk Hn Hx [Hr _]. pose proof (pow2_pos k ltac:(lia)) as Pk.
  assert (E2k : 2 ^ k = 2 * 2 ^ (k - 1)) by (replace k with (k - 1 + 1) at 1 by lia; rewrite pow2_add by lia; lia).
  pose proof (pow2_pos (k - 1) ltac:(lia)) as Pk1.
  split.
  - intros Hkn. pose proof (pow2_pos (n - 1 - k) ltac:(lia)) as Pa.
    assert (E1 : 2 ^ (n - 1) = 2 ^ (n - 1 - k) * 2 ^ k) by (rewrite <- pow2_add by lia; f_equal; lia).
    assert (E2 : 2 ^ n = 2 ^ (n - k) * 2 ^ k) by (rewrite <- pow2_add by lia; f_equal; lia).
    assert (E3 : 2 ^ (n - k) = 2 * 2 ^ (n - 1 - k)) by (replace (n - k) with (n - 1 - k + 1) by lia; rewrite pow2_add by lia; lia).
    nia.
  - intros Hkn.
    assert (Hx2 : x < 2 ^ k) by (apply Z.lt_le_trans with (2 ^ n); [lia | apply pow2_le; lia]).
    nia.
Qed.

Theorem b64_round_pos_correct x t : 0 < x ->
  let n := Z.log2 x + 1 in
  n + t <= 1025 -> -1080 <= n + t ->
  let u := ulp_exp x t in
  exists mant, rounded_at x t u mant /\ 0 <= mant <= two53 /\ (mant < two52 -> u = -1074) /\
    b64_round_pos x t = (let bits := (u + 1074) * two52 + mant in if b64_inf_bits <=? bits then b64_inf_bits else bits).
Proof.
  intros Hx n Hhi Hlo u. unfold b64_round_pos.
  replace (x <=? 0) with false by (symmetry; apply Z.leb_gt; exact Hx).
  fold n. replace (1025 <? n + t) with false by (symmetry; apply Z.ltb_ge; exact Hhi).
  replace (n + t <? -1080) with false by (symmetry; apply Z.ltb_ge; exact Hlo).
  cbv zeta. change (Z.max (n + t - 53) (-1074)) with u.
  assert (Hn : 0 < n) by (unfold n; pose proof (Z.log2_nonneg x); lia).
  assert (Hxn : 2 ^ (n - 1) <= x < 2 ^ n).
  { unfold n. replace (Z.log2 x + 1 - 1) with (Z.log2 x) by lia. replace (Z.log2 x + 1) with (Z.succ (Z.log2 x)) by lia.
    apply Z.log2_spec. exact Hx. }
  assert (Hu : -1074 <= u) by (unfold u, ulp_exp; lia).
  assert (T52 : two52 = 2 ^ 52) by reflexivity. assert (T53 : two53 = 2 ^ 53) by reflexivity.
  destruct (u <=? t) eqn:Eut.
  - (* exact *)
    apply Z.leb_le in Eut. exists (x * 2 ^ (t - u)). rewrite Z.shiftl_mul_pow2 by lia.
    split; [unfold rounded_at; replace (u <=? t) with true by (symmetry; apply Z.leb_le; exact Eut); reflexivity|].
    pose proof (pow2_pos (t - u) ltac:(lia)) as Pk.
    destruct (Z.max_spec (n + t - 53) (-1074)) as [[Hc Eu] | [Hc Eu]]; change (Z.max (n + t - 53) (-1074)) with u in Eu.
    + (* denormal grid *)
      assert (Hb : x * 2 ^ (t - u) < 2 ^ 52).
      { apply Z.lt_le_trans with (2 ^ n * 2 ^ (t - u)); [nia|]. rewrite <- pow2_add by lia. apply pow2_le. lia. }
      split; [rewrite T53; split; [nia|]; apply Z.le_trans with (2 ^ 52); [lia | apply pow2_le; lia]|].
      split; [intros _; exact Eu | reflexivity].
    + (* 53 significant bits *)
      assert (Ek : t - u = 53 - n) by lia.
      assert (E1 : 2 ^ (n - 1) * 2 ^ (t - u) = 2 ^ 52) by (rewrite <- pow2_add by lia; f_equal; lia).
      assert (E2 : 2 ^ n * 2 ^ (t - u) = 2 ^ 53) by (rewrite <- pow2_add by lia; f_equal; lia).
      split; [rewrite T53; nia|]. split; [rewrite T52; intros Hlt; nia | reflexivity].
  - (* rounded *)
    apply Z.leb_gt in Eut. exists (shr_rne x (u - t)).
    pose proof (shr_rne_spec x (u - t) ltac:(lia) ltac:(lia)) as Hr.
    split; [unfold rounded_at; replace (u <=? t) with false by (symmetry; apply Z.leb_gt; exact Eut); exact Hr|].
    destruct (rne_bounds x (u - t) n _ ltac:(lia) Hn Hxn Hr) as [B1 B2].
    destruct (Z.max_spec (n + t - 53) (-1074)) as [[Hc Eu] | [Hc Eu]]; change (Z.max (n + t - 53) (-1074)) with u in Eu.
    + (* denormal grid *)
      assert (Hb : 0 <= shr_rne x (u - t) <= 2 ^ 52).
      { destruct (Z_le_gt_dec (u - t) (n - 1)) as [Hk | Hk].
        - destruct (B1 Hk) as [L U]. pose proof (pow2_pos (n - 1 - (u - t)) ltac:(lia)). split; [lia|].
          apply Z.le_trans with (2 ^ (n - (u - t))); [exact U | apply pow2_le; lia].
        - destruct (B2 ltac:(lia)) as [L U]. split; [exact L|]. pose proof (pow2_pos 52 ltac:(lia)). lia. }
      split; [rewrite T53; split; [lia|]; apply Z.le_trans with (2 ^ 52); [lia | apply pow2_le; lia]|].
      split; [intros _; exact Eu | reflexivity].
    + assert (Ek : u - t = n - 53) by lia.
      destruct (B1 ltac:(lia)) as [L U].
      replace (n - 1 - (u - t)) with 52 in L by lia. replace (n - (u - t)) with 53 in U by lia.
      split; [rewrite T53; pose proof (pow2_pos 52 ltac:(lia)); lia|]. split; [rewrite T52; intros Hlt; lia | reflexivity].
Qed.

(* ---- a quotient with a sticky bit rounds like the exact quotient ---- *)
(* N / D (D > 0) is known through q = N / D and whether the division left a remainder; x = 2q + sticky.  Rounding x
   at a position at least two bits up (P = 2^p, p >= 2) is rounding the exact 2N / D there. *)
Lemma sticky_rne N D p m :
  0 <= N -> 0 < D -> 2 <= p ->
  let q := N / D in let r := N mod D in
  let x := 2 * q + (if r =? 0 then 0 else 1) in
  is_rne x (2 ^ p) m -> is_rne (2 * N) (D * 2 ^ p) m.
Proof.
  intros HN HD Hp q r x [H1 H2].
  pose proof (Z.div_mod N D ltac:(lia)) as Hdm. pose proof (Z.mod_pos_bound N D HD) as Hr. fold q r in Hdm, Hr.
  assert (EP : 2 ^ p = 4 * 2 ^ (p - 2)) by (replace p with (p - 2 + 2) at 1 by lia; rewrite pow2_add by lia; lia).
  pose proof (pow2_pos (p - 2) ltac:(lia)) as PP. set (P4 := 2 ^ (p - 2)) in *.
  unfold x in *. destruct (r =? 0) eqn:Er.
  - apply Z.eqb_eq in Er. rewrite Z.add_0_r in H1, H2.
    assert (E : 2 * N - m * (D * 2 ^ p) = D * (2 * q - m * 2 ^ p)) by nia.
    unfold is_rne. rewrite E, Z.abs_mul, (Z.abs_eq D) by lia. split; [nia|]. intros T. apply H2. nia.
  - apply Z.eqb_neq in Er.
    (* 2q+1 is odd, the half-way points are even: the distance is at most 2^(p-1) - 1 *)
    assert (Hstrict : 2 * Z.abs (2 * q + 1 - m * 2 ^ p) <= 2 ^ p - 2).
    { rewrite EP in *. destruct (Z.abs_spec (2 * q + 1 - m * (4 * P4))) as [[_ Ea] | [_ Ea]]; rewrite Ea in *; lia. }
    unfold is_rne. rewrite EP in *.
    assert (Hlt : 2 * Z.abs (2 * N - m * (D * (4 * P4))) < D * (4 * P4)).
    { destruct (Z.abs_spec (2 * q + 1 - m * (4 * P4))) as [[_ Ea] | [_ Ea]]; rewrite Ea in Hstrict;
        destruct (Z.abs_spec (2 * N - m * (D * (4 * P4)))) as [[_ Eb] | [_ Eb]]; rewrite Eb; nia. }
    split; [lia | intros T; lia].
Qed.

(* ---- decimal to binary ---- *)
(* non-negative decimal exponent: d * 10^e is the integer (d * 5^e) * 2^e, rounded once by b64_round_pos *)
Lemma pow10_split e : 0 <= e -> 10 ^ e = 5 ^ e * 2 ^ e.
Proof. intros H. change 10 with (5 * 2). apply Z.pow_mul_l. Qed.

(* negative decimal exponent -k: d / 10^k through a quotient of at least 57 bits with a sticky bit *)
Theorem decimal_neg_correct d k : 0 < d -> 0 < k ->
  let bq := 5 ^ k in
  let j := Z.max 0 (57 + Z.log2 bq - Z.log2 d) in
  let N := d * 2 ^ j in
  let x := 2 * (N / bq) + (if N mod bq =? 0 then 0 else 1) in
  let t := - k - j - 1 in
  let n := Z.log2 x + 1 in
  n + t <= 1025 -> -1080 <= n + t ->
  let u := ulp_exp x t in
  exists mant, 2 <= u - t /\ is_rne (2 * N) (bq * 2 ^ (u - t)) mant /\ 0 <= mant <= two53 /\ (mant < two52 -> u = -1074) /\
    b64_round_pos x t = (let bits := (u + 1074) * two52 + mant in if b64_inf_bits <=? bits then b64_inf_bits else bits).
Proof.
  intros Hd Hk bq j N x t n Hhi Hlo u.
  assert (Hbq : 0 < bq) by (unfold bq; apply Z.pow_pos_nonneg; lia).
  assert (Hj : 0 <= j) by (unfold j; lia).
  pose proof (pow2_pos j Hj) as Pj.
  assert (HN : 0 < N) by (unfold N; nia).
  (* the quotient has at least 57 bits *)
  assert (HNbig : 2 ^ 56 * bq <= N).
  { pose proof (Z.log2_spec bq Hbq) as [_ Lb]. pose proof (Z.log2_spec d Hd) as [Ld _].
    pose proof (Z.log2_nonneg bq) as Lb0. pose proof (Z.log2_nonneg d) as Ld0.
    assert (E1 : 2 ^ (57 + Z.log2 bq) <= d * 2 ^ j).
    { apply Z.le_trans with (2 ^ (Z.log2 d) * 2 ^ j); [|nia]. rewrite <- pow2_add by lia. apply pow2_le. unfold j. lia. }
    assert (E2 : 2 ^ (57 + Z.log2 bq) = 2 ^ 56 * 2 ^ (Z.succ (Z.log2 bq))).
    { rewrite <- pow2_add by lia. f_equal. lia. }
    unfold N. pose proof (pow2_pos 56 ltac:(lia)). nia. }
  pose proof (Z.div_mod N bq ltac:(lia)) as Hdm. pose proof (Z.mod_pos_bound N bq Hbq) as Hr.
  assert (Hq : 2 ^ 56 <= N / bq) by (apply Z.div_le_lower_bound; lia).
  assert (Hx : 2 ^ 57 <= x).
  { unfold x. change (2 ^ 57) with (2 * 2 ^ 56). destruct (N mod bq =? 0); lia. }
  assert (Hx0 : 0 < x) by (pose proof (pow2_pos 57 ltac:(lia)); lia).
  assert (Hn : 58 <= n).
  { unfold n. assert (57 <= Z.log2 x) by (apply Z.log2_le_pow2; [exact Hx0 | exact Hx]). lia. }
  destruct (b64_round_pos_correct x t Hx0 Hhi Hlo) as (mant & Hr1 & Hm & Hden & Hres). fold u in Hr1, Hden, Hres.
  assert (Hut : 5 <= u - t) by (unfold u, ulp_exp; fold n; lia).
  exists mant. split; [lia|]. split; [|auto].
  unfold rounded_at in Hr1. replace (u <=? t) with false in Hr1 by (symmetry; apply Z.leb_gt; lia).
  exact (sticky_rne N bq (u - t) mant ltac:(lia) Hbq ltac:(lia) Hr1).
Qed.

(* what b64_of_decimal computes on at most 800 significant digits within the exponent window *)
Definition dval (ds : list Z) : Z := fold_left (fun acc x => acc * 10 + x) ds 0.

Theorem b64_of_decimal_unfold (neg : bool) digits exp10 :
  let ds := drop_zeros digits in
  ds <> [] -> skipn dec_max_digits ds = [] -> -400 <= lenZ ds + exp10 <= 400 ->
  let sgn := if neg then two63 else 0 in
  let d := dval ds in
  b64_of_decimal neg digits exp10 =
    sgn + (if 0 <=? exp10 then b64_round_pos (d * 5 ^ exp10) exp10
           else let bq := 5 ^ (- exp10) in
                let j := Z.max 0 (57 + Z.log2 bq - Z.log2 d) in
                let N := d * 2 ^ j in
                b64_round_pos (2 * (N / bq) + (if N mod bq =? 0 then 0 else 1)) (exp10 - j - 1)).
Proof.
  intros ds Hne Htl Hwin sgn d. unfold b64_of_decimal. fold ds. fold sgn.
  assert (Ed : d = fold_left (fun acc x => acc * 10 + x) ds 0) by reflexivity.
  clearbody d sgn. destruct ds as [|d0 dr]; [contradiction|].
  replace (400 <? lenZ (d0 :: dr) + exp10) with false by (symmetry; apply Z.ltb_ge; lia).
  replace (lenZ (d0 :: dr) + exp10 <? -400) with false by (symmetry; apply Z.ltb_ge; lia).
  rewrite Htl. rewrite <- Ed. f_equal.
  unfold pow5. destruct (0 <=? exp10); [reflexivity|]. cbv zeta.
  rewrite Z.shiftl_mul_pow2 by lia.
  set (bq := 5 ^ (- exp10)). set (N := d * 2 ^ Z.max 0 (57 + Z.log2 bq - Z.log2 d)).
  unfold Z.div, Z.modulo. destruct (Z.div_eucl N bq) as [q r]. reflexivity.
Qed.

(* ---- the canonical reading of the negative-exponent case ---- *)
Lemma is_rne_cancel a d c r : 0 < c -> is_rne (a * c) (d * c) r -> is_rne a d r.
Proof.
  intros Hc [H1 H2]. replace (a * c - r * (d * c)) with ((a - r * d) * c) in * by ring.
  rewrite Z.abs_mul, (Z.abs_eq c) in * by lia. split; [nia | intros T; apply H2; nia].
Qed.

(* mant is  d / 10^k / 2^u  rounded half-even  (10^k * 2^u = 5^k * 2^(k+u)) *)
Definition rne_decimal (d k u mant : Z) : Prop :=
  if 0 <=? u + k then is_rne d (5 ^ k * 2 ^ (u + k)) mant else is_rne (d * 2 ^ (- (u + k))) (5 ^ k) mant.

Theorem decimal_neg_canonical d k : 0 < d -> 0 < k ->
  let bq := 5 ^ k in
  let j := Z.max 0 (57 + Z.log2 bq - Z.log2 d) in
  let N := d * 2 ^ j in
  let x := 2 * (N / bq) + (if N mod bq =? 0 then 0 else 1) in
  let t := - k - j - 1 in
  let n := Z.log2 x + 1 in
  n + t <= 1025 -> -1080 <= n + t ->
  let u := ulp_exp x t in
  exists mant, rne_decimal d k u mant /\ 0 <= mant <= two53 /\ (mant < two52 -> u = -1074) /\
    b64_round_pos x t = (let bits := (u + 1074) * two52 + mant in if b64_inf_bits <=? bits then b64_inf_bits else bits).
Proof.
  intros Hd Hk bq j N x t n Hhi Hlo u.
  destruct (decimal_neg_correct d k Hd Hk Hhi Hlo) as (mant & Hut & Hr & Hm & Hden & Hres).
  fold bq j N x t n u in Hut, Hr, Hden, Hres. exists mant. split; [|auto].
  assert (Hj : 0 <= j) by (unfold j; lia).
  assert (Eut : u - t = u + k + j + 1) by (unfold t; lia).
  unfold rne_decimal. destruct (0 <=? u + k) eqn:Es.
  - apply Z.leb_le in Es. apply (is_rne_cancel d (5 ^ k * 2 ^ (u + k)) (2 ^ (j + 1))); [apply pow2_pos; lia|].
    replace (d * 2 ^ (j + 1)) with (2 * N) by (unfold N; rewrite pow2_add by lia; change (2 ^ 1) with 2; ring).
    replace (5 ^ k * 2 ^ (u + k) * 2 ^ (j + 1)) with (bq * 2 ^ (u - t)); [exact Hr|].
    rewrite Eut. replace (u + k + j + 1) with (u + k + (j + 1)) by lia. rewrite pow2_add by lia. unfold bq. ring.
  - apply Z.leb_gt in Es. apply (is_rne_cancel (d * 2 ^ (- (u + k))) (5 ^ k) (2 ^ (u - t))); [apply pow2_pos; lia|].
    replace (d * 2 ^ (- (u + k)) * 2 ^ (u - t)) with (2 * N); [exact Hr|].
    unfold N. rewrite <- Z.mul_assoc, <- pow2_add by lia. replace (- (u + k) + (u - t)) with (j + 1) by lia.
    rewrite pow2_add by lia. change (2 ^ 1) with 2. ring.
Qed.

(* sanity: 0.1, 1/3-ish, the smallest denormal, a midpoint *)
Example decimal_examples :
  b64_of_decimal false [1] (-1) = 4591870180066957722 /\                 (* 0x3FB999999999999A *)
  b64_of_decimal false [4; 9] (-325) = 1 /\                               (* 4.9e-324 *)
  b64_of_decimal false [2; 4] (-325) = 0 /\                               (* 2.4e-324 rounds to zero *)
  b64_of_decimal false [9;0;0;7;1;9;9;2;5;4;7;4;0;9;9;3] 0 = 4845873199050653696 /\   (* 2^53+1: tie to even *)
  b64_of_decimal true [1; 7; 9; 7; 6; 9; 3; 1; 3; 4; 8; 6; 2; 3; 1; 5; 9] 292 = two63 + b64_inf_bits.
Proof. vm_compute. repeat split. Qed.
