(* Properties_C13.v — C13: every allocation failure reaches the fatal-error handler, never a corrupt
   result.  PARTIAL: the model carries the discipline (which call sites are checked), not what C code does
   with a NULL it did not check — that is observed by real fault injection on every run (every k-th
   allocation of every scenario made to fail in a child process).

   alloc_sites / wrappers_checked are regenerated from /repo on every run by tools/gen_census.py (clang
   AST): every reference to malloc/calloc/realloc/strdup/... in lib/, classified Wrapped iff it is inside
   one of the checked wrappers of util.c, and per wrapper whether its body tests the result for NULL and
   calls libconfig_fatal_error on that branch.

   History: six raw strdup() sites in libconfig.c / scanctx.c (F15) were repaired in /repo commit 3758b34.
   Remaining finding F19 (C13_cpp_exception_strdup_refuted): the C++ exception classes duplicate their path /
   file strings with a bare strdup. *)
From Coq Require Import List String Bool Arith Lia.
Import ListNotations.
From LC Require Import Alloc.
From LC.gen Require Import Census.
Local Open Scope string_scope.

(* the census of the current tree: every allocation site of the C library is inside a checked wrapper *)
Theorem C13_c_library_all_checked :
  forallb (fun s => match kind_of_site s with Checked => true | _ => false end) c_library_sites = true.
Proof. vm_compute. reflexivity. Qed.
Print Assumptions C13_c_library_all_checked.

(* hence: for every sequence of allocation requests the C library can make (any sequence of its sites,
   of any length) and every k, failing the k-th request invokes the fatal-error function at that
   request, before the library uses the missing memory *)
Theorem C13_fatal : forall (tr : trace) (k : nat),
  (forall s, In s tr -> In s c_library_sites) -> k < List.length tr ->
  run_alloc tr k 0 = FatalAt k.
Proof.
  intros tr k Hin Hk.
  assert (G : forall tr i, (forall s, In s tr -> In s c_library_sites) -> i <= k -> k < i + List.length tr ->
              run_alloc tr k i = FatalAt k).
  { clear tr Hin Hk. induction tr as [|s r IH]; intros i Hin Hi Hk; cbn [List.length] in Hk; [lia|].
    cbn [run_alloc]. destruct (Nat.eqb_spec i k) as [->|Hne].
    - pose proof C13_c_library_all_checked as A. rewrite forallb_forall in A.
      specialize (A s (Hin s (or_introl eq_refl))). destruct (kind_of_site s); try discriminate. reflexivity.
    - apply IH; [intros x Hx; apply Hin; right; exact Hx | lia | lia]. }
  apply G; [exact Hin | lia | lia].
Qed.
Print Assumptions C13_fatal.

(* no failure, no effect *)
Theorem C13_no_fault : forall tr k, List.length tr <= k -> run_alloc tr k 0 = Completed.
Proof.
  intros tr k. assert (G : forall tr i, i + List.length tr <= k -> run_alloc tr k i = Completed).
  { clear tr. induction tr as [|s r IH]; intros i H; [reflexivity|]. cbn [List.length] in H. cbn [run_alloc].
    destruct (Nat.eqb_spec i k) as [->|Hne]; [lia|]. apply IH. lia. }
  intros H. apply G. lia.
Qed.

(* the C++ layer: operator new throws std::bad_alloc by itself, and the Config constructor registers a
   fatal-error function that throws std::bad_alloc for the C side.  But the exception classes copy their
   strings with a bare strdup: a failure there yields an exception object holding NULL (F19) *)
Theorem C13_cpp_exception_strdup_refuted :
  exists s, In s cpp_sites /\ kind_of_site s = Unchecked /\ run_alloc [s] 0 0 = NullUsedAt 0.
Proof.
  (* the witness is the first unchecked site of the census, whatever line it stands on *)
  set (unchecked := fun s => match kind_of_site s with Unchecked => true | _ => false end).
  destruct (find unchecked cpp_sites) as [s|] eqn:E; [|vm_compute in E; discriminate E].
  destruct (find_some _ _ E) as [Hin Hu]. unfold unchecked in Hu.
  exists s. split; [exact Hin|].
  assert (Hk : kind_of_site s = Unchecked) by (destruct (kind_of_site s); try discriminate Hu; reflexivity).
  split; [exact Hk|]. cbn [run_alloc]. rewrite Hk. reflexivity.
Qed.
Print Assumptions C13_cpp_exception_strdup_refuted.

Theorem C13_cpp_new_throws :
  forallb (fun s => match kind_of_site s with Unchecked => String.eqb (al_callee s) "strdup" | _ => true end)
          cpp_sites = true.
Proof. vm_compute. reflexivity. Qed.
