(* StdioCap.v — C12: one model for config_write_file.

   StdioModel.v decides the outcome of every write(2) call by a schedule list, independently of what the file
   holds; WriteFile.v has a device that accepts bytes until its capacity is reached.  Here:
     1. the stdio model with an ORACLE  orc : what the file holds -> how many bytes this call offers -> wres
        instead of the schedule (dev_write_o ... write_file_model_o); every run of the oracle model is a run of the
        schedule model on some schedule (oracle_as_schedule), hence the theorems of StdioFacts.v hold for it
        (write_file_success_complete_o, write_file_success_iff_o);
     2. the capacity oracle cap_orc: the call is complete when everything fits, partial (exactly the bytes that
        fit; the retry of the rest then fails) when something fits, failing when nothing fits - as push in
        WriteFile.v: "Z.max held cap" bytes held, and the push failed;
     3. the instance theorem (cap_instance): for a device whose open succeeds and whose capacity is not negative, the
        oracle model over cap_orc and WriteFile.write_file agree on the result AND on the content of the file, in
        every case (success or not), for every buffer size B (B = 0 included: it behaves as B = 1) and every k;
        the one disagreement: a NEGATIVE capacity with an EMPTY text (cap_negative_empty_disagree): write_file
        reports failure (its push of 0 bytes fails), the stdio model makes no write(2) call at all and succeeds.
        With a negative capacity and a non-empty text they agree again (also covered by cap_instance). *)
From Coq Require Import List ZArith Bool Lia.
Import ListNotations.
From LC Require Import Base StdioModel StdioFacts WriteFile.

(* ------------------------------------------------------------------------------------------------------------ *)
(* 1. the oracle model *)

Record ostream := mkO {
  o_dev : bytes;                  (* what the file holds *)
  o_buf : bytes;                  (* buffered, not yet written *)
  o_err : bool;                   (* ferror(stream) *)
  o_fails : nat }.                (* ghost: failed write(2) calls so far *)

Definition o_open : ostream := mkO [] [] false 0.

Section Oracle.
  Variable orc : bytes -> nat -> wres.

  (* stdio writing the bytes d to the descriptor: the device content, success.  Every call asks the oracle, with
     what the file holds now and the number of bytes offered.  A partial write takes at least one byte, so
     [length d] calls are enough: the fuel is never exhausted when fuel >= length d (dev_write_o_fuel). *)
  Fixpoint dev_write_o (fuel : nat) (dev d : bytes) : bytes * bool :=
    match d with
    | [] => (dev, true)
    | _ :: _ =>
        match orc dev (length d) with
        | WAll => (dev ++ d, true)
        | WPartial k =>
            let k' := Nat.min (Nat.max k 1) (length d) in
            match fuel with
            | 0 => (dev ++ d, true)
            | S f => dev_write_o f (dev ++ firstn k' d) (skipn k' d)
            end
        | WFail => (dev, false)
        end
    end.

  Definition s_flush_o (st : ostream) : ostream * bool :=
    match o_buf st with
    | [] => (st, true)
    | _ :: _ =>
        let '(dev, ok) := dev_write_o (length (o_buf st)) (o_dev st) (o_buf st) in
        if ok then (mkO dev [] (o_err st) (o_fails st), true)
        else (mkO dev [] true (S (o_fails st)), false)
    end.

  Definition s_putc_o (B : nat) (st : ostream) (b : Z) : ostream :=
    if Nat.leb B (length (o_buf st)) then
      let '(st1, ok) := s_flush_o st in
      if ok then mkO (o_dev st1) [b] (o_err st1) (o_fails st1) else st1
    else mkO (o_dev st) (o_buf st ++ [b]) (o_err st) (o_fails st).

  Definition s_put_o (B : nat) (st : ostream) (bs : bytes) : ostream := fold_left (s_putc_o B) bs st.

  Definition s_close_o (st : ostream) (close_ok : bool) : ostream * bool :=
    let '(st1, ok) := s_flush_o st in (st1, ok && close_ok).

  (* config_write_file after a successful fopen: the same lines as StdioModel.write_file_run *)
  Definition write_file_run_o (B : nat) (fsync_opt fsync_ok close_ok : bool) (text : bytes) : bool * ostream :=
    let st1 := s_put_o B o_open text in
    let ok1 := negb (o_err st1) in
    let '(st2, ok2) :=
      if ok1 && fsync_opt then
        let '(st, fl) := s_flush_o st1 in (st, if fl then fsync_ok else false)
      else (st1, ok1) in
    let '(st3, cl) := s_close_o st2 close_ok in
    (ok2 && cl, st3).

  Definition write_file_model_o (B : nat) (fsync_opt fsync_ok close_ok : bool) (text : bytes) : bool * bytes :=
    let '(ok, st) := write_file_run_o B fsync_opt fsync_ok close_ok text in (ok, o_dev st).

  (* ---- every run of the oracle model is a run of the schedule model ---- *)
  Lemma dev_write_o_cons fuel dev d : d <> [] ->
    dev_write_o fuel dev d =
    match orc dev (length d) with
    | WAll => (dev ++ d, true)
    | WPartial k =>
        let k' := Nat.min (Nat.max k 1) (length d) in
        match fuel with
        | 0 => (dev ++ d, true)
        | S f => dev_write_o f (dev ++ firstn k' d) (skipn k' d)
        end
    | WFail => (dev, false)
    end.
  Proof. destruct d; [intros H; contradiction|]. intros _. destruct fuel; reflexivity. Qed.

  Lemma dev_write_cons w r dev d : d <> [] ->
    dev_write (w :: r) dev d =
    match w with
    | WAll => (r, dev ++ d, true)
    | WPartial k => let k' := Nat.min (Nat.max k 1) (length d) in dev_write r (dev ++ firstn k' d) (skipn k' d)
    | WFail => (r, dev, false)
    end.
  Proof. destruct d; [intros H; contradiction|]. intros _. reflexivity. Qed.

  (* the stream of the schedule model that corresponds to an oracle stream, with the schedule that is left *)
  Definition emb (st : ostream) (sc : list wres) : stream := mkS (o_dev st) (o_buf st) (o_err st) sc (o_fails st).

  (* one stdio-level write: the oracle's answers, in order, are a schedule [u] on which dev_write does the same
     and which it consumes exactly; at most one of them is WFail, and it is the last one *)
  Lemma dev_write_sim : forall fuel dev d, length d <= fuel ->
    exists u, fails_in u = (if snd (dev_write_o fuel dev d) then 0 else 1) /\
      forall rest, dev_write (u ++ rest) dev d = (rest, fst (dev_write_o fuel dev d), snd (dev_write_o fuel dev d)).
  Proof.
    induction fuel as [|f IH]; intros dev d Hl.
    - destruct d; [|cbn in Hl; lia]. exists []. split; [reflexivity|]. intros rest. cbn [app]. rewrite dev_write_nil. reflexivity.
    - destruct d as [|x d0] eqn:Ed.
      + exists []. split; [reflexivity|]. intros rest. cbn [app]. rewrite dev_write_nil. reflexivity.
      + rewrite <- Ed in *. assert (Hne : d <> []) by (rewrite Ed; discriminate).
        assert (Hlen : 1 <= length d) by (rewrite Ed; cbn; lia).
        rewrite (dev_write_o_cons (S f) dev d Hne). destruct (orc dev (length d)) as [|k|] eqn:Eo.
        * exists [WAll]. split; [reflexivity|]. intros rest. cbn [app]. rewrite (dev_write_cons _ _ _ _ Hne). reflexivity.
        * cbv zeta. set (k' := Nat.min (Nat.max k 1) (length d)).
          destruct (IH (dev ++ firstn k' d) (skipn k' d)) as (u & Fu & Hu).
          { rewrite skipn_length. unfold k'. lia. }
          exists (WPartial k :: u). split; [exact Fu|]. intros rest. cbn [app]. rewrite (dev_write_cons _ _ _ _ Hne). apply Hu.
        * exists [WFail]. split; [reflexivity|]. intros rest. cbn [app]. rewrite (dev_write_cons _ _ _ _ Hne). reflexivity.
  Qed.

  (* the fuel does not matter once it covers the bytes to write *)
  Lemma dev_write_o_fuel : forall f1 f2 dev d, length d <= f1 -> length d <= f2 ->
    dev_write_o f1 dev d = dev_write_o f2 dev d.
  Proof.
    induction f1 as [|f1 IH]; intros f2 dev d H1 H2.
    - destruct d; [|cbn in H1; lia]. destruct f2; reflexivity.
    - destruct d as [|x d0] eqn:Ed; [destruct f2; reflexivity|].
      rewrite <- Ed in *. assert (Hne : d <> []) by (rewrite Ed; discriminate).
      assert (Hlen : 1 <= length d) by (rewrite Ed; cbn; lia).
      rewrite !(dev_write_o_cons _ dev d Hne). destruct (orc dev (length d)) as [|k|]; try reflexivity.
      cbv zeta. destruct f2 as [|f2]; [lia|]. apply IH; rewrite skipn_length; lia.
  Qed.

  Lemma s_flush_sim st : exists u, forall rest,
    s_flush (emb st (u ++ rest)) = (emb (fst (s_flush_o st)) rest, snd (s_flush_o st)).
  Proof.
    unfold s_flush, s_flush_o. cbn [emb st_buf st_sched st_dev st_err st_fails].
    destruct (o_buf st) as [|x b0] eqn:Eb.
    - exists []. intros rest. cbn [app fst snd]. unfold emb. rewrite Eb. reflexivity.
    - destruct (dev_write_sim (length (x :: b0)) (o_dev st) (x :: b0) (le_n _)) as (u & _ & Hu).
      exists u. intros rest. rewrite Hu. destruct (dev_write_o (length (x :: b0)) (o_dev st) (x :: b0)) as [dev ok].
      cbn [fst snd]. destruct ok; reflexivity.
  Qed.

  Lemma s_putc_sim B st b : exists u, forall rest, s_putc B (emb st (u ++ rest)) b = emb (s_putc_o B st b) rest.
  Proof.
    unfold s_putc, s_putc_o. cbn [emb st_buf].
    destruct (Nat.leb B (length (o_buf st))).
    - destruct (s_flush_sim st) as (u & Hu). exists u. intros rest. rewrite Hu.
      destruct (s_flush_o st) as [st1 ok]. cbn [fst snd]. destruct ok; reflexivity.
    - exists []. intros rest. reflexivity.
  Qed.

  Lemma s_put_sim B : forall bs st, exists u, forall rest, s_put B (emb st (u ++ rest)) bs = emb (s_put_o B st bs) rest.
  Proof.
    induction bs as [|b r IH]; intros st.
    - exists []. intros rest. reflexivity.
    - destruct (s_putc_sim B st b) as (u1 & H1). destruct (IH (s_putc_o B st b)) as (u2 & H2).
      exists (u1 ++ u2). intros rest. unfold s_put, s_put_o in *. cbn [fold_left]. rewrite <- app_assoc, H1. apply H2.
  Qed.

  Theorem oracle_as_schedule_run B fsync_opt fsync_ok close_ok text : exists sched,
    write_file_run B sched fsync_opt fsync_ok close_ok text =
    (fst (write_file_run_o B fsync_opt fsync_ok close_ok text), emb (snd (write_file_run_o B fsync_opt fsync_ok close_ok text)) []).
  Proof.
    unfold write_file_run, write_file_run_o, s_ferror, s_close, s_close_o.
    destruct (s_put_sim B text o_open) as (u1 & H1). change (emb o_open ?s) with (s_open s) in H1.
    set (st1 := s_put_o B o_open text) in *.
    destruct (negb (o_err st1) && fsync_opt) eqn:Ec.
    - destruct (s_flush_sim st1) as (u2 & H2).
      destruct (s_flush_sim (fst (s_flush_o st1))) as (u3 & H3).
      exists (u1 ++ u2 ++ u3 ++ []). rewrite H1. cbn [emb st_err]. rewrite Ec. fold (emb st1 (u2 ++ u3 ++ [])). rewrite H2.
      destruct (s_flush_o st1) as [st2 fl]. cbn [fst snd] in *. rewrite H3.
      destruct (s_flush_o st2) as [st3 fl3]. reflexivity.
    - destruct (s_flush_sim st1) as (u3 & H3).
      exists (u1 ++ u3 ++ []). rewrite H1. cbn [emb st_err]. rewrite Ec. fold (emb st1 (u3 ++ [])). rewrite H3.
      destruct (s_flush_o st1) as [st3 fl3]. reflexivity.
  Qed.

  (* the schedule model is general enough: for every oracle and every text there is a schedule on which it gives
     the same (result, file) *)
  Theorem oracle_as_schedule B fsync_opt fsync_ok close_ok text : exists sched,
    write_file_model B sched fsync_opt fsync_ok close_ok text = write_file_model_o B fsync_opt fsync_ok close_ok text.
  Proof.
    destruct (oracle_as_schedule_run B fsync_opt fsync_ok close_ok text) as (sched & E). exists sched.
    unfold write_file_model, write_file_model_o. rewrite E.
    destruct (write_file_run_o B fsync_opt fsync_ok close_ok text) as [ok st]. reflexivity.
  Qed.

  (* ---- the theorems of StdioFacts.v, for the oracle model ---- *)
  Theorem write_file_run_spec_o B fsync_opt fsync_ok close_ok text :
    let '(ok, st) := write_file_run_o B fsync_opt fsync_ok close_ok text in
    (ok = true <-> (o_fails st = 0 /\ (fsync_opt = true -> fsync_ok = true) /\ close_ok = true)) /\
    (o_fails st = 0 -> o_dev st = text /\ o_buf st = []).
  Proof.
    destruct (oracle_as_schedule_run B fsync_opt fsync_ok close_ok text) as (sched & E).
    pose proof (write_file_run_spec B sched fsync_opt fsync_ok close_ok text) as H. rewrite E in H.
    destruct (write_file_run_o B fsync_opt fsync_ok close_ok text) as [ok st]. exact H.
  Qed.

  (* success means that the whole serialisation reached the file, in order, nothing dropped *)
  Theorem write_file_success_complete_o B fsync_opt fsync_ok close_ok text :
    fst (write_file_model_o B fsync_opt fsync_ok close_ok text) = true ->
    snd (write_file_model_o B fsync_opt fsync_ok close_ok text) = text.
  Proof.
    unfold write_file_model_o. pose proof (write_file_run_spec_o B fsync_opt fsync_ok close_ok text) as H.
    destruct (write_file_run_o B fsync_opt fsync_ok close_ok text) as [ok st]. cbn [fst snd]. destruct H as [H1 H2].
    intros Hok. apply H1 in Hok as (F & _). exact (proj1 (H2 F)).
  Qed.

  (* success is reported exactly when no write(2) call failed, the fsync (when requested) succeeded and the close
     succeeded *)
  Theorem write_file_success_iff_o B fsync_opt fsync_ok close_ok text :
    fst (write_file_run_o B fsync_opt fsync_ok close_ok text) = true <->
    (o_fails (snd (write_file_run_o B fsync_opt fsync_ok close_ok text)) = 0 /\
     (fsync_opt = true -> fsync_ok = true) /\ close_ok = true).
  Proof.
    pose proof (write_file_run_spec_o B fsync_opt fsync_ok close_ok text) as H.
    destruct (write_file_run_o B fsync_opt fsync_ok close_ok text) as [ok st]. exact (proj1 H).
  Qed.

  Corollary write_file_any_failure_o B fsync_opt fsync_ok close_ok text :
    o_fails (snd (write_file_run_o B fsync_opt fsync_ok close_ok text)) <> 0 ->
    fst (write_file_model_o B fsync_opt fsync_ok close_ok text) = false.
  Proof.
    intros F. unfold write_file_model_o. pose proof (write_file_success_iff_o B fsync_opt fsync_ok close_ok text) as H.
    destruct (write_file_run_o B fsync_opt fsync_ok close_ok text) as [ok st]. cbn [fst snd] in *.
    destruct ok; [|reflexivity]. exfalso. apply F. apply H. reflexivity.
  Qed.
End Oracle.

(* ------------------------------------------------------------------------------------------------------------ *)
(* 2. the capacity oracle *)

(* a call offering n bytes when the file holds m: complete if there is no capacity or m + n <= cap; otherwise the
   cap - m bytes that fit are written (a partial write: stdio calls write(2) again with the rest, the file then holds
   cap bytes and that call fails); when nothing fits the call fails.  This is push of WriteFile.v: the device then
   holds Z.max held cap bytes, and the push failed. *)
Definition cap_orc (cap : option Z) (dev : bytes) (n : nat) : wres :=
  match cap with
  | None => WAll
  | Some c =>
      let m := Z.of_nat (length dev) in
      if (m + Z.of_nat n <=? c)%Z then WAll
      else if (m <? c)%Z then WPartial (Z.to_nat (c - m)) else WFail
  end.

Section Cap.
  Variable c : Z.
  Hypothesis Hc : (0 <= c)%Z.
  Let orc := cap_orc (Some c).

  (* one stdio-level write over a device of capacity c *)
  Lemma cap_dev_write fuel dev d : length d <= fuel -> (Z.of_nat (length dev) <= c)%Z ->
    dev_write_o orc fuel dev d =
    if (Z.of_nat (length dev + length d) <=? c)%Z then (dev ++ d, true) else (firstn (Z.to_nat c) (dev ++ d), false).
  Proof.
    intros Hf Hd. destruct d as [|x d0] eqn:Ed.
    - cbn [length]. rewrite Nat.add_0_r, app_nil_r. rewrite (proj2 (Z.leb_le _ _)) by lia. destruct fuel; reflexivity.
    - rewrite <- Ed in *. assert (Hne : d <> []) by (rewrite Ed; discriminate).
      assert (Hlen : 1 <= length d) by (rewrite Ed; cbn; lia).
      rewrite (dev_write_o_cons orc fuel dev d Hne). unfold orc at 1, cap_orc. cbv zeta.
      rewrite Nat2Z.inj_add.
      destruct (Z.leb_spec (Z.of_nat (length dev) + Z.of_nat (length d)) c) as [H1|H1]; [reflexivity|].
      destruct (Z.ltb_spec (Z.of_nat (length dev)) c) as [H2|H2].
      + destruct fuel as [|f]; [lia|].
        set (k' := Nat.min (Nat.max (Z.to_nat (c - Z.of_nat (length dev))) 1) (length d)).
        assert (Hk : k' = Z.to_nat c - length dev) by (unfold k'; lia).
        assert (Hs : length (skipn k' d) = length d - k') by apply skipn_length.
        assert (Hfn : length (firstn k' d) = k') by (rewrite firstn_length; lia).
        assert (Hne2 : skipn k' d <> []) by (intros E; rewrite E in Hs; cbn in Hs; lia).
        rewrite (dev_write_o_cons orc f _ _ Hne2). unfold orc at 1, cap_orc. cbv zeta.
        rewrite app_length, Hfn, Hs.
        rewrite (proj2 (Z.leb_gt _ _)) by lia. rewrite (proj2 (Z.ltb_ge _ _)) by lia.
        rewrite firstn_app, (firstn_all2 dev) by lia. rewrite <- Hk. reflexivity.
      + rewrite firstn_app, (firstn_all2 dev) by lia. replace (Z.to_nat c - length dev) with 0 by lia.
        rewrite firstn_O, app_nil_r. reflexivity.
  Qed.

  Lemma cap_flush st : (Z.of_nat (length (o_dev st)) <= c)%Z ->
    s_flush_o orc st =
    if (Z.of_nat (length (o_dev st) + length (o_buf st)) <=? c)%Z
    then (mkO (o_dev st ++ o_buf st) [] (o_err st) (o_fails st), true)
    else (mkO (firstn (Z.to_nat c) (o_dev st ++ o_buf st)) [] true (S (o_fails st)), false).
  Proof.
    intros Hd. unfold s_flush_o. destruct st as [dev buf err fails]. cbn [o_dev o_buf o_err o_fails] in *.
    destruct buf as [|x b0] eqn:Eb.
    - cbn [length]. rewrite Nat.add_0_r, app_nil_r. rewrite (proj2 (Z.leb_le _ _)) by lia. reflexivity.
    - rewrite <- Eb. rewrite (cap_dev_write (length buf) dev buf (le_n _) Hd).
      destruct (Z.of_nat (length dev + length buf) <=? c)%Z; reflexivity.
  Qed.

  (* the invariant: either no write has failed, everything put so far is in the file or in the buffer and the file
     is within the capacity; or a write has failed, the indicator is set, more than c bytes have been put and the
     file holds the first c of them (and keeps holding exactly them: every later write(2) fails) *)
  Definition capinv (st : ostream) (em : bytes) : Prop :=
    (o_fails st = 0 /\ o_err st = false /\ o_dev st ++ o_buf st = em /\ (Z.of_nat (length (o_dev st)) <= c)%Z) \/
    (o_fails st <> 0 /\ o_err st = true /\ o_dev st = firstn (Z.to_nat c) em /\ (c < Z.of_nat (length em))%Z).

  Lemma capinv_dev st em : capinv st em -> (Z.of_nat (length (o_dev st)) <= c)%Z.
  Proof. intros [(_ & _ & _ & H) | (_ & _ & E & H)]; [exact H|]. rewrite E, firstn_length. lia. Qed.

  Lemma cap_flush_inv st em st' ok : s_flush_o orc st = (st', ok) -> capinv st em ->
    capinv st' em /\ o_buf st' = [] /\ (ok = false -> o_fails st' <> 0).
  Proof.
    intros E HJ. rewrite (cap_flush st (capinv_dev st em HJ)) in E.
    destruct (Z.leb_spec (Z.of_nat (length (o_dev st) + length (o_buf st))) c) as [H1|H1]; injection E as <- <-.
    - split; [|split; [reflexivity | discriminate]].
      destruct HJ as [(F & Er & D & L) | (F & Er & D & L)]; [left | right]; cbn [o_dev o_buf o_err o_fails].
      + rewrite app_nil_r, app_length. repeat split; assumption.
      + assert (Lb : length (o_buf st) = 0) by (rewrite D, firstn_length in H1; lia).
        destruct (o_buf st); [|discriminate Lb]. rewrite app_nil_r. repeat split; assumption.
    - split; [|split; [reflexivity | intros _; discriminate]].
      right. cbn [o_dev o_buf o_err o_fails]. split; [discriminate|]. split; [reflexivity|].
      destruct HJ as [(F & Er & D & L) | (F & Er & D & L)].
      + rewrite D. split; [reflexivity|]. rewrite <- D, app_length. lia.
      + split; [|exact L]. rewrite firstn_app, (firstn_all2 (o_dev st)) by (rewrite D, firstn_length; lia).
        replace (Z.to_nat c - length (o_dev st)) with 0 by (rewrite D, firstn_length; lia).
        rewrite firstn_O, app_nil_r. exact D.
  Qed.

  Lemma cap_putc_inv B st em b : capinv st em -> capinv (s_putc_o orc B st b) (em ++ [b]).
  Proof.
    intros HJ. unfold s_putc_o. destruct (Nat.leb B (length (o_buf st))).
    - destruct (s_flush_o orc st) as [st1 ok] eqn:Ef. destruct (cap_flush_inv st em st1 ok Ef HJ) as (J1 & Jb & Jf).
      assert (Hfailed : forall s, o_fails s <> 0 -> capinv s em -> capinv s (em ++ [b])).
      { intros s Fs [(F & _) | (F & Er & D & L)]; [contradiction|]. right. repeat split; try assumption.
        - rewrite firstn_app. replace (Z.to_nat c - length em) with 0 by lia. rewrite firstn_O, app_nil_r. exact D.
        - rewrite app_length. lia. }
      destruct ok; [|exact (Hfailed st1 (Jf eq_refl) J1)].
      destruct J1 as [(F & Er & D & L) | (F & Er & D & L)]; [left | right]; cbn [o_dev o_buf o_err o_fails].
      + rewrite Jb, app_nil_r in D. rewrite D. repeat split; try assumption. rewrite <- D. exact L.
      + repeat split; try assumption.
        * rewrite firstn_app. replace (Z.to_nat c - length em) with 0 by lia. rewrite firstn_O, app_nil_r. exact D.
        * rewrite app_length. lia.
    - destruct HJ as [(F & Er & D & L) | (F & Er & D & L)]; [left | right]; cbn [o_dev o_buf o_err o_fails].
      + rewrite app_assoc, D. repeat split; assumption.
      + repeat split; try assumption.
        * rewrite firstn_app. replace (Z.to_nat c - length em) with 0 by lia. rewrite firstn_O, app_nil_r. exact D.
        * rewrite app_length. lia.
  Qed.

  Lemma cap_put_inv B : forall bs st em, capinv st em -> capinv (s_put_o orc B st bs) (em ++ bs).
  Proof.
    induction bs as [|b r IH]; intros st em HJ; [rewrite app_nil_r; exact HJ|].
    unfold s_put_o. cbn [fold_left]. pose proof (IH _ _ (cap_putc_inv B st em b HJ)) as H.
    rewrite <- app_assoc in H. exact H.
  Qed.

  Lemma capinv_open : capinv o_open [].
  Proof. left. cbn. repeat split; try reflexivity. exact Hc. Qed.

  (* the whole run: the final stream satisfies the invariant for the whole text, with an empty buffer *)
  Lemma cap_run_inv B fsync_opt fsync_ok close_ok text :
    let st := snd (write_file_run_o orc B fsync_opt fsync_ok close_ok text) in capinv st text /\ o_buf st = [].
  Proof.
    cbv zeta. unfold write_file_run_o, s_close_o.
    pose proof (cap_put_inv B text o_open [] capinv_open) as J1. cbn [app] in J1.
    set (st1 := s_put_o orc B o_open text) in *.
    destruct (negb (o_err st1) && fsync_opt).
    - destruct (s_flush_o orc st1) as [st2 fl] eqn:E2. destruct (cap_flush_inv _ _ _ _ E2 J1) as (J2 & _ & _).
      destruct (s_flush_o orc st2) as [st3 fl3] eqn:E3. destruct (cap_flush_inv _ _ _ _ E3 J2) as (J3 & B3 & _).
      cbn [snd]. split; assumption.
    - destruct (s_flush_o orc st1) as [st3 fl3] eqn:E3. destruct (cap_flush_inv _ _ _ _ E3 J1) as (J3 & B3 & _).
      cbn [snd]. split; assumption.
  Qed.

  (* the oracle model over a device of capacity c, in closed form *)
  Theorem cap_model B fsync_opt fsync_ok close_ok text :
    write_file_model_o orc B fsync_opt fsync_ok close_ok text =
    ((Z.of_nat (length text) <=? c)%Z && (if fsync_opt then fsync_ok else true) && close_ok,
     if (Z.of_nat (length text) <=? c)%Z then text else firstn (Z.to_nat c) text).
  Proof.
    unfold write_file_model_o.
    pose proof (cap_run_inv B fsync_opt fsync_ok close_ok text) as HJ.
    pose proof (write_file_run_spec_o orc B fsync_opt fsync_ok close_ok text) as HS.
    destruct (write_file_run_o orc B fsync_opt fsync_ok close_ok text) as [ok st]. cbn [snd] in HJ.
    destruct HJ as (HJ & Hb). destruct HS as (HS & _).
    destruct HJ as [(F & Er & D & L) | (F & Er & D & L)].
    - rewrite Hb, app_nil_r in D. rewrite D in *. rewrite (proj2 (Z.leb_le _ _)) by lia. f_equal. cbn [andb].
      destruct ok.
      + destruct (proj1 HS eq_refl) as (_ & A & ->). destruct fsync_opt; [rewrite (A eq_refl)|]; reflexivity.
      + destruct fsync_opt, fsync_ok, close_ok; try reflexivity; exfalso;
          assert (X : false = true) by (apply HS; split; [exact F | split; [auto | reflexivity]]); discriminate X.
    - rewrite (proj2 (Z.leb_gt _ _)) by lia. cbn [andb]. f_equal; [|exact D].
      destruct ok; [|reflexivity]. destruct (proj1 HS eq_refl) as (F0 & _). contradiction.
  Qed.
End Cap.

(* ---- an oracle that never answers WFail (partial writes allowed) loses nothing ---- *)
Section NoFail.
  Variable orc : bytes -> nat -> wres.
  Hypothesis Hnf : forall dev n, orc dev n <> WFail.

  Lemma dev_write_o_nofail : forall fuel dev d, snd (dev_write_o orc fuel dev d) = true.
  Proof.
    induction fuel as [|f IH]; intros dev d; destruct d as [|x d0] eqn:Ed; try reflexivity;
      rewrite <- Ed; assert (Hne : d <> []) by (rewrite Ed; discriminate);
      rewrite (dev_write_o_cons orc _ dev d Hne); pose proof (Hnf dev (length d)) as Hw;
      destruct (orc dev (length d)); try reflexivity; try contradiction. apply IH.
  Qed.

  Lemma s_flush_o_nofail st : o_fails (fst (s_flush_o orc st)) = o_fails st.
  Proof.
    unfold s_flush_o. destruct (o_buf st) as [|x b0]; [reflexivity|].
    pose proof (dev_write_o_nofail (length (x :: b0)) (o_dev st) (x :: b0)) as H.
    destruct (dev_write_o orc (length (x :: b0)) (o_dev st) (x :: b0)) as [dev ok]. cbn [snd] in H. subst ok. reflexivity.
  Qed.

  Lemma s_putc_o_nofail B st b : o_fails (s_putc_o orc B st b) = o_fails st.
  Proof.
    unfold s_putc_o. destruct (Nat.leb B (length (o_buf st))); [|reflexivity].
    pose proof (s_flush_o_nofail st) as H. destruct (s_flush_o orc st) as [st1 ok]. cbn [fst] in H. destruct ok; exact H.
  Qed.

  Lemma s_put_o_nofail B : forall bs st, o_fails (s_put_o orc B st bs) = o_fails st.
  Proof.
    induction bs as [|b r IH]; intros st; [reflexivity|]. unfold s_put_o in *. cbn [fold_left].
    rewrite IH. apply s_putc_o_nofail.
  Qed.

  Theorem write_file_no_fail_o B fsync_opt fsync_ok close_ok text :
    write_file_model_o orc B fsync_opt fsync_ok close_ok text = ((if fsync_opt then fsync_ok else true) && close_ok, text).
  Proof.
    assert (F0 : o_fails (snd (write_file_run_o orc B fsync_opt fsync_ok close_ok text)) = 0).
    { unfold write_file_run_o, s_close_o. pose proof (s_put_o_nofail B text o_open) as F1.
      set (st1 := s_put_o orc B o_open text) in *.
      destruct (negb (o_err st1) && fsync_opt).
      - pose proof (s_flush_o_nofail st1) as F2. destruct (s_flush_o orc st1) as [st2 fl]. cbn [fst] in F2.
        pose proof (s_flush_o_nofail st2) as F3. destruct (s_flush_o orc st2) as [st3 fl3]. cbn [fst snd] in *.
        rewrite F3, F2, F1. reflexivity.
      - pose proof (s_flush_o_nofail st1) as F3. destruct (s_flush_o orc st1) as [st3 fl3]. cbn [fst snd] in *.
        rewrite F3, F1. reflexivity. }
    unfold write_file_model_o. pose proof (write_file_run_spec_o orc B fsync_opt fsync_ok close_ok text) as H.
    destruct (write_file_run_o orc B fsync_opt fsync_ok close_ok text) as [ok st]. cbn [snd] in F0. destruct H as [H1 H2].
    rewrite (proj1 (H2 F0)). f_equal.
    destruct ok.
    - destruct (proj1 H1 eq_refl) as (_ & A & ->). destruct fsync_opt; [rewrite (A eq_refl)|]; reflexivity.
    - destruct fsync_opt, fsync_ok, close_ok; try reflexivity; exfalso;
        assert (X : false = true) by (apply H1; split; [exact F0 | split; [auto | reflexivity]]); discriminate X.
  Qed.
End NoFail.

(* no capacity: every write(2) call is complete *)
Theorem nocap_model B fsync_opt fsync_ok close_ok text :
  write_file_model_o (cap_orc None) B fsync_opt fsync_ok close_ok text =
  ((if fsync_opt then fsync_ok else true) && close_ok, text).
Proof. apply write_file_no_fail_o. intros dev n. discriminate. Qed.

(* a negative capacity: every write(2) call fails *)
Section NegCap.
  Variable c : Z.
  Hypothesis Hc : (c < 0)%Z.
  Let orc := cap_orc (Some c).

  Lemma neg_orc dev n : orc dev n = WFail.
  Proof.
    unfold orc, cap_orc. cbv zeta. rewrite (proj2 (Z.leb_gt _ _)) by lia. rewrite (proj2 (Z.ltb_ge _ _)) by lia. reflexivity.
  Qed.

  (* nothing ever reaches the file; and once a byte has been put, a write has failed or the buffer is not empty *)
  Definition neginv (st : ostream) : Prop := o_dev st = [] /\ (o_fails st <> 0 \/ o_buf st <> []).

  Lemma neg_flush st : o_dev st = [] ->
    o_dev (fst (s_flush_o orc st)) = [] /\ o_buf (fst (s_flush_o orc st)) = [] /\
    (o_fails st <> 0 \/ o_buf st <> [] -> o_fails (fst (s_flush_o orc st)) <> 0).
  Proof.
    intros D. unfold s_flush_o. destruct (o_buf st) as [|x b0] eqn:Eb.
    - cbn [fst]. rewrite Eb. split; [exact D|]. split; [reflexivity|]. intros [F | F]; [exact F | contradiction].
    - rewrite (dev_write_o_cons orc _ _ (x :: b0)) by discriminate. rewrite neg_orc. cbn [fst o_dev o_buf o_fails].
      split; [exact D|]. split; [reflexivity|]. intros _. discriminate.
  Qed.

  Lemma neg_putc B st b : o_dev st = [] -> neginv (s_putc_o orc B st b).
  Proof.
    intros D. unfold s_putc_o. destruct (Nat.leb B (length (o_buf st))).
    - destruct (neg_flush st D) as (D1 & B1 & F1). unfold s_flush_o in *. destruct (o_buf st) as [|x b0] eqn:Eb.
      + cbn [fst] in *. split; [exact D|]. right. discriminate.
      + rewrite (dev_write_o_cons orc _ _ (x :: b0)) in * by discriminate. rewrite neg_orc in *. cbn [fst] in *.
        split; [exact D1|]. left. apply F1. right. discriminate.
    - split; [exact D|]. right. cbn [o_buf]. destruct (o_buf st); discriminate.
  Qed.

  Lemma neg_put B : forall bs st, neginv st -> neginv (s_put_o orc B st bs).
  Proof.
    induction bs as [|b r IH]; intros st H; [exact H|]. unfold s_put_o in *. cbn [fold_left]. apply IH.
    apply neg_putc. exact (proj1 H).
  Qed.

  Theorem negcap_model B fsync_opt fsync_ok close_ok text : text <> [] ->
    write_file_model_o orc B fsync_opt fsync_ok close_ok text = (false, []).
  Proof.
    intros Hne. destruct text as [|b r]; [contradiction|].
    assert (H : let st := snd (write_file_run_o orc B fsync_opt fsync_ok close_ok (b :: r)) in o_dev st = [] /\ o_fails st <> 0).
    { cbv zeta. unfold write_file_run_o, s_close_o.
      assert (J1 : neginv (s_put_o orc B o_open (b :: r))).
      { unfold s_put_o. cbn [fold_left]. apply neg_put. apply neg_putc. reflexivity. }
      set (st1 := s_put_o orc B o_open (b :: r)) in *. destruct J1 as (D1 & K1).
      destruct (negb (o_err st1) && fsync_opt).
      - destruct (neg_flush st1 D1) as (D2 & _ & F2). specialize (F2 K1).
        destruct (s_flush_o orc st1) as [st2 fl]. cbn [fst] in *.
        destruct (neg_flush st2 D2) as (D3 & _ & F3). specialize (F3 (or_introl F2)).
        destruct (s_flush_o orc st2) as [st3 fl3]. cbn [fst snd] in *. split; assumption.
      - destruct (neg_flush st1 D1) as (D3 & _ & F3). specialize (F3 K1).
        destruct (s_flush_o orc st1) as [st3 fl3]. cbn [fst snd] in *. split; assumption. }
    cbv zeta in H. destruct H as (D & F).
    pose proof (write_file_any_failure_o orc B fsync_opt fsync_ok close_ok (b :: r) F) as Hf.
    unfold write_file_model_o in *. destruct (write_file_run_o orc B fsync_opt fsync_ok close_ok (b :: r)) as [ok st].
    cbn [fst snd] in *. rewrite Hf, D. reflexivity.
  Qed.
End NegCap.

(* ------------------------------------------------------------------------------------------------------------ *)
(* 3. WriteFile.write_file is the oracle model over the capacity oracle *)

(* write_file in closed form (result and content; every k) *)
Section WriteFileClosed.
  Local Open Scope Z_scope.

  Ltac wf_fin d len c Hall :=
    destruct (Z.leb_spec len c); try (exfalso; lia);
    (split; [destruct (dv_fsync_fails d), (dv_close_fails d); reflexivity |
      match goal with |- Some (firstn (Z.to_nat ?X) _) = _ =>
        first [replace X with len by lia; rewrite Hall; reflexivity | replace X with c by lia; reflexivity] end]).

  Lemma wf_cap text fsync_opt d k0 c : dv_open_fails d = false -> dv_cap d = Some c -> 0 <= c ->
    let len := Z.of_nat (length text) in
    let r := write_file text fsync_opt d k0 in
    wf_ok r = (len <=? c) && (if fsync_opt then negb (dv_fsync_fails d) else true) && negb (dv_close_fails d) /\
    wf_content r = Some (if len <=? c then text else firstn (Z.to_nat c) text).
  Proof.
    intros Ho Hcap Hc. cbv zeta. unfold write_file, push. rewrite Ho, Hcap.
    set (len := Z.of_nat (length text)). set (k := clip 0 len k0).
    assert (Hk : 0 <= k <= len) by (unfold k, clip, len; lia).
    assert (Hall : firstn (Z.to_nat len) text = text) by (unfold len; rewrite Nat2Z.id; apply firstn_all).
    destruct (Z.leb_spec (0 + k) c) as [A|A]; cbn [negb andb].
    - destruct fsync_opt; cbn [andb].
      + destruct (Z.leb_spec (0 + k + (len - k)) c) as [A2|A2]; cbn [wf_ok wf_content negb andb]; wf_fin d len c Hall.
      + destruct (Z.leb_spec (0 + k + (len - k)) c) as [A2|A2]; cbn [wf_ok wf_content negb andb]; wf_fin d len c Hall.
    - destruct (Z.leb_spec (Z.max 0 c + (len - k)) c) as [A2|A2]; cbn [wf_ok wf_content negb andb]; wf_fin d len c Hall.
  Qed.

  Lemma wf_nocap text fsync_opt d k0 : dv_open_fails d = false -> dv_cap d = None ->
    let r := write_file text fsync_opt d k0 in
    wf_ok r = (if fsync_opt then negb (dv_fsync_fails d) else true) && negb (dv_close_fails d) /\
    wf_content r = Some text.
  Proof.
    intros Ho Hcap. cbv zeta. unfold write_file, push. rewrite Ho, Hcap.
    set (len := Z.of_nat (length text)). set (k := clip 0 len k0).
    assert (Hall : firstn (Z.to_nat len) text = text) by (unfold len; rewrite Nat2Z.id; apply firstn_all).
    cbn [negb andb]. destruct fsync_opt; cbn [andb wf_ok wf_content negb];
      (split; [destruct (dv_fsync_fails d), (dv_close_fails d); reflexivity |
               replace (0 + k + (len - k)) with len by lia; rewrite Hall; reflexivity]).
  Qed.

  (* a negative capacity: every push fails, the one of 0 bytes included *)
  Lemma wf_negcap text fsync_opt d k0 c : dv_open_fails d = false -> dv_cap d = Some c -> c < 0 ->
    let r := write_file text fsync_opt d k0 in wf_ok r = false /\ wf_content r = Some [].
  Proof.
    intros Ho Hcap Hc. cbv zeta. unfold write_file, push. rewrite Ho, Hcap.
    set (len := Z.of_nat (length text)). set (k := clip 0 len k0).
    assert (Hk : 0 <= k <= len) by (unfold k, clip, len; lia).
    rewrite (proj2 (Z.leb_gt (0 + k) c)) by lia. cbn [negb andb].
    rewrite (proj2 (Z.leb_gt (Z.max 0 c + (len - k)) c)) by lia. cbn [negb andb wf_ok wf_content].
    split; [reflexivity|]. replace (Z.max (Z.max 0 c) c) with 0 by lia. reflexivity.
  Qed.
End WriteFileClosed.

(* THE INSTANCE THEOREM.  For a device whose open succeeds and whose capacity is not negative (or whose text is not
   empty), for every buffer size B and every k: write_file reports what the oracle model over the capacity oracle
   reports, and the file holds what the oracle model's file holds - in every case, success or failure. *)
Theorem cap_instance B text fsync_opt d k :
  dv_open_fails d = false ->
  match dv_cap d with Some c => (0 <= c)%Z \/ text <> [] | None => True end ->
  let r := write_file text fsync_opt d k in
  let m := write_file_model_o (cap_orc (dv_cap d)) B fsync_opt (negb (dv_fsync_fails d)) (negb (dv_close_fails d)) text in
  wf_ok r = fst m /\ wf_content r = Some (snd m).
Proof.
  intros Ho Hcap. cbv zeta. destruct (dv_cap d) as [c|] eqn:Ec.
  - destruct (Z.le_gt_cases 0 c) as [Hc|Hc].
    + rewrite (cap_model c Hc). cbn [fst snd]. exact (wf_cap text fsync_opt d k c Ho Ec Hc).
    + destruct Hcap as [Hcap|Hne]; [lia|]. rewrite (negcap_model c Hc B _ _ _ text Hne). cbn [fst snd].
      exact (wf_negcap text fsync_opt d k c Ho Ec Hc).
  - rewrite nocap_model. cbn [fst snd]. exact (wf_nocap text fsync_opt d k Ho Ec).
Qed.

(* the same, in the form "success exactly when ...; and then the contents agree" *)
Corollary cap_instance_success B text fsync_opt d k :
  dv_open_fails d = false ->
  match dv_cap d with Some c => (0 <= c)%Z \/ text <> [] | None => True end ->
  let m := write_file_model_o (cap_orc (dv_cap d)) B fsync_opt (negb (dv_fsync_fails d)) (negb (dv_close_fails d)) text in
  (fst m = true <-> wf_ok (write_file text fsync_opt d k) = true) /\
  (fst m = true -> snd m = text /\ wf_content (write_file text fsync_opt d k) = Some text).
Proof.
  intros Ho Hcap. cbv zeta. destruct (cap_instance B text fsync_opt d k Ho Hcap) as (E1 & E2). cbv zeta in E1, E2.
  split; [rewrite E1; tauto|]. intros Hok.
  pose proof (write_file_success_complete_o _ B fsync_opt _ _ text Hok) as Ht. rewrite E2, Ht. auto.
Qed.

(* the case left out is a real disagreement: capacity -1, empty text.  write_file reports failure (push d 0 0 fails),
   the stdio model makes no write(2) call and reports success.  (RLIMIT_FSIZE and disk sizes are never negative: the
   fault matrix cannot reach this point.) *)
Example cap_negative_empty_disagree :
  write_file_model_o (cap_orc (Some (-1)%Z)) 4 false true true [] = (true, []) /\
  wf_ok (write_file [] false (mkDev (Some (-1)%Z) false false false) 0) = false /\
  wf_content (write_file [] false (mkDev (Some (-1)%Z) false false false) 0) = Some [].
Proof. vm_compute. auto. Qed.

(* ------------------------------------------------------------------------------------------------------------ *)
(* 4. examples: B = 4, the 10-byte text of StdioFacts.v *)

(* capacity 6: the first flush (4 bytes) fits; the second one (bytes 4..7, triggered by byte 8) is partial - 2 bytes -
   and its retry fails: bytes 6, 7 and 8 are dropped, the indicator is set; the flush of byte 9 at fclose fails too.
   The file holds the first 6 bytes, as write_file says (for every k) *)
Example ex_cap6 :
  write_file_model_o (cap_orc (Some 6%Z)) 4 false true true ex_text = (false, [48; 49; 50; 51; 52; 53]%Z) /\
  write_file_model_o (cap_orc (Some 6%Z)) 4 true true true ex_text = (false, [48; 49; 50; 51; 52; 53]%Z) /\
  o_fails (snd (write_file_run_o (cap_orc (Some 6%Z)) 4 false true true ex_text)) = 2 /\
  (* the same run in the schedule model: the oracle's answers as a schedule *)
  write_file_model 4 [WAll; WPartial 2; WFail; WFail] false true true ex_text = (false, [48; 49; 50; 51; 52; 53]%Z) /\
  (* write_file, k = 0, 4, 8, 10 *)
  map (fun k => let r := write_file ex_text false (mkDev (Some 6%Z) false false false) k in (wf_ok r, wf_content r))
      [0; 4; 8; 10]%Z = repeat (false, Some [48; 49; 50; 51; 52; 53]%Z) 4.
Proof. vm_compute. repeat split. Qed.

(* no capacity *)
Example ex_nocap :
  write_file_model_o (cap_orc None) 4 true true true ex_text = (true, ex_text) /\
  write_file_model_o (cap_orc None) 4 true false true ex_text = (false, ex_text) /\
  write_file_model_o (cap_orc None) 4 false false true ex_text = (true, ex_text) /\
  write_file_model_o (cap_orc None) 4 false true false ex_text = (false, ex_text) /\
  wf_ok (write_file ex_text true (mkDev None false false false) 4) = true /\
  wf_ok (write_file ex_text true (mkDev None true false false) 4) = false.
Proof. vm_compute. repeat split. Qed.

(* capacity exactly the length of the text: success; one byte less: failure, 9 bytes in the file *)
Example ex_cap_exact :
  write_file_model_o (cap_orc (Some 10%Z)) 4 true true true ex_text = (true, ex_text) /\
  write_file_model_o (cap_orc (Some 10%Z)) 4 false true true ex_text = (true, ex_text) /\
  wf_ok (write_file ex_text true (mkDev (Some 10%Z) false false false) 8) = true /\
  write_file_model_o (cap_orc (Some 9%Z)) 4 true true true ex_text = (false, [48; 49; 50; 51; 52; 53; 54; 55; 56]%Z) /\
  wf_content (write_file ex_text true (mkDev (Some 9%Z) false false false) 8) = Some [48; 49; 50; 51; 52; 53; 54; 55; 56]%Z.
Proof. vm_compute. repeat split. Qed.

(* a state-dependent oracle that no capacity expresses: the device refuses the write that would cross 6 bytes but
   accepts later, smaller ones (transient) - success is not reported *)
Example ex_transient_o :
  write_file_model_o (fun dev n => if Nat.leb (length dev + n) 6 then WAll else if Nat.leb n 1 then WAll else WFail)
    4 false true true ex_text = (false, [48; 49; 50; 51; 57]%Z).
Proof. vm_compute. reflexivity. Qed.

Print Assumptions oracle_as_schedule_run.
Print Assumptions oracle_as_schedule.
Print Assumptions write_file_run_spec_o.
Print Assumptions write_file_success_complete_o.
Print Assumptions write_file_success_iff_o.
Print Assumptions write_file_any_failure_o.
Print Assumptions write_file_no_fail_o.
Print Assumptions dev_write_o_fuel.
Print Assumptions cap_model.
Print Assumptions nocap_model.
Print Assumptions negcap_model.
Print Assumptions cap_instance.
Print Assumptions cap_instance_success.
