(* Api.v — the public C API on the setting tree, function by function (libconfig.c).
   Definitions only.  Settings are addressed by index path from the root. *)
From Coq Require Import List ZArith Bool.
Import ListNotations.
From LC Require Import Base Tree Fp Lookup.
Local Open Scope Z_scope.

(* ------------------------------------------------------------------------------------ *)
(* typed getters: __config_setting_get_int / _int64 / _float; result None = CONFIG_FALSE,
   output untouched.  [Unspec] marks a C cast outside its defined domain. *)

Inductive gres := GFail | GOk (v : Z) | GUnspec.

Definition n_get_int (auto : bool) (s : setting) : gres :=
  match s_pl s with
  | PInt z => GOk z
  | PInt64 z => if in_int z then GOk z else GFail
  | PFloat b => if auto then match cast_double_int b with Some v => GOk v | None => GUnspec end
                else GFail
  | _ => GFail
  end.

Definition n_get_int64 (auto : bool) (s : setting) : gres :=
  match s_pl s with
  | PInt64 z => GOk z
  | PInt z => GOk z
  | PFloat b => if auto then match cast_double_int64 b with Some v => GOk v | None => GUnspec end
                else GFail
  | _ => GFail
  end.

(* result is a bit pattern *)
Definition n_get_float (auto : bool) (s : setting) : gres :=
  match s_pl s with
  | PFloat b => GOk b
  | PInt z => if auto then GOk (b64_of_Z z) else GFail
  | PInt64 z => if auto then GOk (b64_of_Z z) else GFail
  | _ => GFail
  end.

(* config_setting_get_bool: value if BOOL else 0 *)
Definition n_get_bool (s : setting) : Z :=
  match s_pl s with PBool z => z | _ => 0 end.

(* config_setting_get_string: sval if STRING else NULL *)
Definition n_get_string (s : setting) : option bytes :=
  match s_pl s with PStr o => o | _ => None end.

(* ------------------------------------------------------------------------------------ *)
(* typed setters: None = CONFIG_FALSE (setting unchanged) *)

Inductive sres := SFail | SOk (s : setting) | SUnspec.

Definition n_set_int (auto : bool) (s : setting) (v : Z) : sres :=
  match s_pl s with
  | PNone | PInt _ => SOk (set_pl s (PInt v))
  | PInt64 _ => SOk (set_pl s (PInt64 v))
  | PFloat _ => if auto then SOk (set_pl s (PFloat (b64_of_Z v))) else SFail
  | _ => SFail
  end.

Definition n_set_int64 (auto : bool) (s : setting) (v : Z) : sres :=
  match s_pl s with
  | PNone | PInt64 _ => SOk (set_pl s (PInt64 v))
  | PInt _ => if in_int v then SOk (set_pl s (PInt v)) else SFail
  | PFloat _ => if auto then SOk (set_pl s (PFloat (b64_of_Z v))) else SFail
  | _ => SFail
  end.

Definition n_set_float (auto : bool) (s : setting) (b : Z) : sres :=
  match s_pl s with
  | PNone | PFloat _ => SOk (set_pl s (PFloat b))
  | PInt _ => if auto then match cast_double_int b with
                           | Some v => SOk (set_pl s (PInt v)) | None => SUnspec end
              else SFail
  | PInt64 _ => if auto then match cast_double_int64 b with
                             | Some v => SOk (set_pl s (PInt64 v)) | None => SUnspec end
                else SFail
  | _ => SFail
  end.

Definition n_set_bool (s : setting) (v : Z) : sres :=
  match s_pl s with
  | PNone | PBool _ => SOk (set_pl s (PBool v))
  | _ => SFail
  end.

Definition n_set_string (s : setting) (v : option bytes) : sres :=
  match s_pl s with
  | PNone | PStr _ => SOk (set_pl s (PStr v))
  | _ => SFail
  end.

(* config_setting_set_format *)
Definition n_set_format (s : setting) (f : Z) : sres :=
  match s_pl s with
  | PInt _ | PInt64 _ => if (f =? 0) || (f =? 1) then SOk (set_fmt s f) else SFail
  | _ => SFail
  end.

(* config_setting_get_format *)
Definition n_get_format (deffmt : Z) (s : setting) : Z :=
  if s_fmt s =? 0 then deffmt else s_fmt s.

(* ------------------------------------------------------------------------------------ *)
(* structure *)

(* __config_list_checktype *)
Definition checktype (s : setting) (t : ty) : bool :=
  match s_kids s with
  | [] => true
  | k0 :: _ => match s_ty s with
               | TList => true
               | _ => ty_eqb (s_ty k0) t
               end
  end.

(* config_setting_create: append a fresh child; None when the parent is not an aggregate *)
Definition n_create (parent : setting) (name : option bytes) (t : ty) : option setting :=
  if ty_is_aggregate (s_ty parent)
  then Some (set_kids parent (s_kids parent ++ [new_setting name t]))
  else None.

(* config_setting_remove(parent, path) at node level.  Returns the new parent and the
   destroyed subtree. *)
Definition n_remove (parent : setting) (path : bytes) : option (setting * setting) :=
  match s_ty parent with
  | TGroup =>
      match lookup parent path with
      | None => None
      | Some rel =>
          let ppath := removelast rel in
          match get_at ppath parent with
          | None => None
          | Some holder =>
              match list_search (s_kids holder) (last_component [] path) with
              | None => None
              | Some idx =>
                  match nth_error (s_kids holder) idx with
                  | None => None
                  | Some victim =>
                      Some (upd_at ppath (fun h => set_kids h (list_del idx (s_kids h))) parent,
                            victim)
                  end
              end
          end
      end
  | _ => None
  end.

(* config_setting_remove_elem(parent, unsigned idx) *)
Definition n_remove_elem (parent : setting) (idx : Z) : option (setting * setting) :=
  if ty_is_aggregate (s_ty parent) then
    if (0 <=? idx) && (idx <? Z.of_nat (length (s_kids parent))) then
      match nth_error (s_kids parent) (Z.to_nat idx) with
      | Some victim => Some (set_kids parent (list_del (Z.to_nat idx) (s_kids parent)), victim)
      | None => None
      end
    else None
  else None.

(* config_setting_add(parent, name, type).  [tcode] is the raw int.  Result: new parent,
   index of the new child, and the subtree destroyed by an override (if any). *)
Definition n_add (overrides : bool) (parent : setting) (name : option bytes) (tcode : Z)
  : option (setting * nat * option setting) :=
  match ty_of_code tcode with
  | None => None
  | Some t =>
      let pty := s_ty parent in
      if ty_eqb pty TArray && negb (ty_is_scalar t) then None else
      if ty_eqb pty TArray && negb (checktype parent t) then None else
      let name := if ty_eqb pty TArray || ty_eqb pty TList then None else name in
      let name_ok := match name with Some n => validate_name n | None => true end in
      if negb name_ok then None else
      match get_member parent name with
      | Some _ =>
          if overrides then
            match name with
            | None => None   (* unreachable: get_member is None for a NULL name *)
            | Some n =>
                match n_remove parent n with
                | Some (parent', victim) =>
                    match n_create parent' name t with
                    | Some p2 => Some (p2, length (s_kids parent'), Some victim)
                    | None => None
                    end
                | None =>
                    (* config_setting_remove failed: the code still calls create *)
                    match n_create parent name t with
                    | Some p2 => Some (p2, length (s_kids parent), None)
                    | None => None
                    end
                end
            end
          else None
      | None =>
          match n_create parent name t with
          | Some p2 => Some (p2, length (s_kids parent), None)
          | None => None
          end
      end
  end.

(* config_setting_set_*_elem(setting, idx, v): [setter] is the node-level typed setter,
   [t] its type.  Result: new aggregate and index of the element. *)
Inductive eres := EFail | EOk (s : setting) (i : nat) | EUnspec.

Definition n_set_elem (t : ty) (setter : setting -> sres) (agg : setting) (idx : Z) : eres :=
  match s_ty agg with
  | TArray | TList =>
      if idx <? 0 then
        if checktype agg t then
          match setter (new_setting None t) with
          | SOk e => EOk (set_kids agg (s_kids agg ++ [e])) (length (s_kids agg))
          | SFail => (* element was created and stays, but NULL is returned *)
                     EFail
          | SUnspec => EUnspec
          end
        else EFail
      else
        match get_elem agg idx with
        | None => EFail
        | Some i =>
            match nth_error (s_kids agg) i with
            | None => EFail
            | Some e =>
                match setter e with
                | SOk e' => EOk (set_kids agg (list_upd i (fun _ => e') (s_kids agg))) i
                | SFail => EFail
                | SUnspec => EUnspec
                end
            end
        end
  | _ => EFail
  end.

(* config_setting_length *)
Definition n_length (s : setting) : Z :=
  if ty_is_aggregate (s_ty s) then Z.of_nat (length (s_kids s)) else 0.
