(* Run.v — script runner: text in, transcript out.  World = one configuration + a virtual file
   system.  Definitions only. *)
From Coq Require Import List ZArith Bool.
Import ListNotations.
From LC Require Import Base Tree Fp Lookup Api ApiStep Script ScanAction Tokens Lexer Parser Reader Writer FloatDec WriteFile Locale Cpp.
From LC.gen Require Import Consts.
Local Open Scope Z_scope.

Record world := mkW_ { w_cfg : cfg; w_fs : fs; w_dev : wdev; w_loc : lstate }.
Definition loc0 : lstate := mkLoc (mkLobj 0 46 [67]) None 100 [].
Definition mkW (c : cfg) (f : fs) : world := mkW_ c f dev_ok loc0.

Definition atof : bytes -> Z := strtod_bits.
Definition fmt_double (b prec : Z) (sci : bool) : bytes := format_double b prec sci FBUF_SIZE.

Definition w_dump := [100;117;109;112].
Definition w_case := [99;97;115;101].
Definition w_fs_ := [102;115].
Definition w_put := [112;117;116].
Definition w_dir := [100;105;114].
Definition w_cat := [99;97;116].
Definition w_reads := [114;101;97;100;115].
Definition w_readf := [114;101;97;100;102].
Definition w_readst := [114;101;97;100;115;116].
Definition w_write := [119;114;105;116;101].
Definition w_writef := [119;114;105;116;101;102].
Definition w_lex := [108;101;120].

Definition is_crash (r : ret) : bool := match r with RCrash => true | _ => false end.

Fixpoint fs_remove (f : fs) (p : bytes) : fs :=
  match f with
  | [] => []
  | (q, o) :: r => if bytes_eqb q p then fs_remove r p else (q, o) :: fs_remove r p
  end.
Definition fs_put (f : fs) (p : bytes) (o : fsobj) : fs := (p, o) :: fs_remove f p.

Definition show_rd (r : rd_result) : list bytes :=
  match rd_out_ r with
  | RdOk => ([82;32;105;49] :: map show_event (rd_events r))
            ++ (match rd_stdout r with [] => [] | t => [[76;32;115;116;100;111;117;116;32] ++ show_hs (Some t)] end)
  | RdFail => ([82;32;105;48] :: map show_event (rd_events r))
              ++ (match rd_stdout r with [] => [] | t => [[76;32;115;116;100;111;117;116;32] ++ show_hs (Some t)] end)
  | RdExit code => [[82;32;101;120;105;116;32] ++ show_dec code]          (* "R exit <n>" *)
  | RdStuck => [[82;32;115;116;117;99;107]]                               (* "R stuck" *)
  | RdNest => [[82;32;117;110;115;112;101;99]]                            (* "R unspec" *)
  end.

Definition is_exit (r : rd_result) : bool :=
  match rd_out_ r with RdExit _ | RdStuck | RdNest => true | _ => false end.

(* token printing for the `lex` operation *)
Definition show_ptok (t : ptok) : Z :=
  match t with
  | TEquals => 61 | TComma => 44 | TGroupStart => 123 | TGroupEnd => 125 | TArrayStart => 91
  | TArrayEnd => 93 | TListStart => 40 | TListEnd => 41 | TSemicolon => 59 | TGarbage => 63
  end.

Definition show_token (t : ltoken) : bytes :=
  [75; 32] ++
  (match lt_tok t with
   | TkBool v => [98] ++ show_dec v
   | TkInt v => [105] ++ show_dec v
   | TkInt64 v => [108] ++ show_dec v
   | TkHex v => [120] ++ show_dec v
   | TkHex64 v => [88] ++ show_dec v
   | TkFloat b => [102] ++ show_hex16 b
   | TkString s => [115] ++ show_hs (Some s)
   | TkName s => [110] ++ show_hs (Some s)
   | TkP p => [112; show_ptok p]
   | TkError => [69]
   | TkEOF => [90]
   end) ++ [32] ++ show_dec (lt_line t).

Definition w_wdev := [119;100;101;118].
Definition w_locale := [108;111;99;97;108;101].
Definition w_global := [103;108;111;98;97;108].
Definition w_locq := [108;111;99;113].
Definition w_readck := [114;101;97;100;99;107].
Definition w_rtrip := [114;116;114;105;112].

(* does the directory part of [path] exist in the virtual file system?  (a directory entry, or the
   prefix of some stored file) *)
Fixpoint dir_part (acc cur : bytes) (p : bytes) : bytes :=
  match p with
  | [] => rev acc
  | c :: r => if c =? 47 then dir_part (cur ++ acc) [47] r    (* acc := everything before this slash *)
              else dir_part acc (c :: cur) r
  end.
Fixpoint is_prefix (a b : bytes) : bool :=
  match a, b with
  | [], _ => true
  | x :: a', y :: b' => (x =? y) && is_prefix a' b'
  | _, [] => false
  end.
Definition dir_exists (f : fs) (path : bytes) : bool :=
  let d := dir_part [] [] path in
  match d with
  | [] => true
  | _ => existsb (fun e => bytes_eqb (fst e) d || is_prefix (d ++ [47]) (fst e)) f
  end.


Definition w_exists_ := [101;120;105;115;116;115].
Definition w_lookup_ := [108;111;111;107;117;112].
Definition w_path_ := [112;97;116;104].
Definition w_info_ := [105;110;102;111].
Definition w_iter_ := [105;116;101;114].
Definition w_cast_ := [99;97;115;116].
Definition w_mem_ := [109;101;109].
Definition w_xinit := [120;105;110;105;116].
Definition w_xreads := [120;114;101;97;100;115].
Definition w_xclear := [120;99;108;101;97;114].
Definition w_xgrouploc := [120;103;114;111;117;112;108;111;99].
Definition w_seterrno := [115;101;116;101;114;114;110;111].
Definition w_xreadf := [120;114;101;97;100;102].
Definition w_xwritef := [120;119;114;105;116;101;102].

(* ------------------------------------------------------------------------------------ *)
(* the C++ operations (harness/drvxx.cc): "x..." lines *)

Definition show_exn (e : exn) : bytes :=
  match e with
  | XNotFound => [83;101;116;116;105;110;103;78;111;116;70;111;117;110;100;69;120;99;101;112;116;105;111;110]
  | XType => [83;101;116;116;105;110;103;84;121;112;101;69;120;99;101;112;116;105;111;110]
  | XRange => [83;101;116;116;105;110;103;82;97;110;103;101;69;120;99;101;112;116;105;111;110]
  | XName => [83;101;116;116;105;110;103;78;97;109;101;69;120;99;101;112;116;105;111;110]
  | XParse f l t =>
      [80;97;114;115;101;69;120;99;101;112;116;105;111;110;32] ++ show_hs f ++ [32] ++ show_dec l ++ [32] ++ show_hs t
  | XFileIO => [70;105;108;101;73;79;69;120;99;101;112;116;105;111;110]
  end.

Definition show_xret (x : xret) : bytes :=
  match x with
  | XR r => [82;32] ++ show_ret r
  | XT e => [82;32;116;104;114;111;119;32] ++ show_exn e          (* "R throw " *)
  end.

Definition bit (z m : Z) : bytes := if Z.land z m =? 0 then [48] else [49].

Definition show_info_cpp (i : info) : bytes :=
  [116] ++ show_dec (i_type i) ++ [32;102] ++ show_dec (i_fmt i) ++ [32;108;101;110] ++ show_dec (i_len i)
  ++ [32;105;100;120] ++ show_dec (i_idx i) ++ [32;114;111;111;116] ++ show_dec (i_root i)
  ++ [32;103;114;112] ++ bit (i_bits i) 1 ++ [32;97;114;114] ++ bit (i_bits i) 2
  ++ [32;108;115;116] ++ bit (i_bits i) 4 ++ [32;97;103;103] ++ bit (i_bits i) 32
  ++ [32;115;99;97] ++ bit (i_bits i) 16 ++ [32;110;117;109] ++ bit (i_bits i) 8
  ++ [32;110;97;109;101] ++ show_hs (i_name i).
Definition show_info_c (i : info) : bytes :=
  [116] ++ show_dec (i_type i) ++ [32;102] ++ show_dec (i_fmt i) ++ [32;108;101;110] ++ show_dec (i_len i)
  ++ [32;105;100;120] ++ show_dec (i_idx i) ++ [32;114;111;111;116] ++ show_dec (i_root i)
  ++ [32;110;97;109;101] ++ show_hs (i_name i).

Definition show_xout (o : xout) : bytes :=
  match o with
  | XO x => show_xret x
  | XOInfo a b => [82;32] ++ show_info_cpp a ++ [32;124;32;99;61] ++ show_info_c b
  | XOIter kids =>
      [82;32;105;116] ++
      (match kids with
       | [] => []
       | _ => [32] ++ join 44 (map (fun p => 110 :: show_path p) kids)
       end) ++ [32;110;61] ++ show_dec (Z.of_nat (length kids))
  | XOPath path back =>
      [82;32;115] ++ show_hs (Some path) ++ [32;98;97;99;107;61] ++ show_ret (RNode back)
  end.

Definition parse_ck (s : bytes) : ck :=
  match s with
  | 105 :: _ => CkInt | 117 :: _ => CkUInt | 108 :: _ => CkLL | 85 :: _ => CkULL
  | 102 :: _ => CkDouble | 98 :: _ => CkBool | _ => CkString
  end.

Definition x_ := 120.
Definition parse_xop (ws : list bytes) : option xop :=
  match ws with
  | [c; a] =>
      if is_w c (x_ :: w_exists_) then Some (XExists (hs_or_empty (parse_hs a)))
      else if is_w c (x_ :: w_lookup_) then Some (XLookup (hs_or_empty (parse_hs a)))
      else if is_w c (x_ :: w_path_) then Some (XPath (parse_path a))
      else if is_w c (x_ :: w_info_) then Some (XInfo (parse_path a))
      else if is_w c (x_ :: w_iter_) then Some (XIter (parse_path a))
      else None
  | [c; a; b] =>
      if is_w c (x_ :: w_cast_) then Some (XCast (parse_ck a) (parse_path b))
      else if is_w c (x_ :: w_look) then Some (XLook (parse_ck a) (hs_or_empty (parse_hs b)))
      else if is_w c (x_ :: 109 :: w_exists_) then Some (XMExists (parse_path a) (hs_or_empty (parse_hs b)))
      else if is_w c (x_ :: w_idx) then Some (XIdx (parse_path a) (parse_num b))
      else if is_w c (x_ :: w_mem_) then Some (XMem (parse_path a) (hs_or_empty (parse_hs b)))
      else if is_w c (x_ :: w_rm) then Some (XRm (parse_path a) (hs_or_empty (parse_hs b)))
      else if is_w c (x_ :: w_rmi) then Some (XRmi (parse_path a) (parse_num b))
      else if is_w c (x_ :: w_setfmt) then Some (XSetFmt (parse_path a) (parse_num b))
      else None
  | [c; a; b; d] =>
      if is_w c (x_ :: w_mlook) then Some (XMLook (parse_ck a) (parse_path b) (hs_or_empty (parse_hs d)))
      else if is_w c (x_ :: w_add) then
        Some (XAdd (parse_path a) (match b with [45] => None | _ => Some (hs_or_empty (parse_hs b)) end) (parse_num d))
      else if is_w c (x_ :: w_set) then
        let k := parse_kind a in
        Some (XSet k (parse_path b)
                   (match k with KString => AS (Some (hs_or_empty (parse_hs d))) | _ => parse_arg k d end))
      else None
  | _ => None
  end.

Definition run_line_c (w : world) (ln : bytes) : world * list bytes * bool :=
  let c := w_cfg w in
  let mkW := fun c' f' => mkW_ c' f' (w_dev w) (w_loc w) in
  let mkWl := fun c' f' l' => mkW_ c' f' (w_dev w) l' in
  let ws := words ln in
  let api := fun _ : unit =>
    match parse_aop ws with
    | Some o => let '(c', r, ev) := api_step c o in (mkW c' (w_fs w), show_result r ev, is_crash r)
    | None => (w, [[82;32;63]], false)
    end in
  match ws with
  | [cmd] =>
      if is_w cmd w_dump then (w, dump_cfg c, false)
      else if is_w cmd w_write then
        let '(t, l') := with_locale true (w_loc w) (fun radix => config_write (fmt_radix fmt_double radix) c) in
        (mkWl c (w_fs w) l', [[82;32] ++ show_ret (RStr (Some t))], false)
      else if is_w cmd w_rtrip then
        (* C01: write, read the text into a second configuration with the same output settings, dump it,
           write it again *)
        let '(t1, l1) := with_locale true (w_loc w) (fun radix => config_write (fmt_radix fmt_double radix) c) in
        let c2 := set_deffmt (set_prec (set_tab (set_options cfg_init (c_options c)) (c_tab c)) (c_prec c)) (c_deffmt c) in
        let '(r, l2) := with_locale true l1
                          (fun radix => config_read (atof_radix atof radix) [] c2 None t1) in
        if is_exit r then (mkWl c (w_fs w) l2, show_rd r, true) else
        let c3 := rd_cfg r in
        let '(t2, l3) := with_locale true l2 (fun radix => config_write (fmt_radix fmt_double radix) c3) in
        (mkWl c (w_fs w) l3,
         [[82;32;114;116;32] ++ (match rd_out_ r with RdOk => [49] | _ => [48] end);
          [87;32] ++ show_hs (Some t1)] ++ dump_tree [] (c_root c3) ++ [show_err c3; [87;32] ++ show_hs (Some t2)],
         false)
      else if is_w cmd w_locq then
        (w, [[82;32;108;111;99;32] ++ show_hs (Some (lo_name (ls_global (w_loc w)))) ++ [32] ++
             (match ls_thread (w_loc w) with Some l => show_hs (Some (lo_name l)) | None => [45] end) ++ [32] ++
             show_dec (eff_radix (w_loc w))], false)
      else api tt
  | [cmd; a] =>
      if is_w cmd w_case then (mkW_ cfg_init [] dev_ok loc0, [[67; 32] ++ a], false)
      else if is_w cmd w_reads || is_w cmd w_readst then
        let '(r, l') := with_locale true (w_loc w)
                          (fun radix => config_read (atof_radix atof radix) (w_fs w) c None (hs_or_empty (parse_hs a))) in
        (mkWl (rd_cfg r) (w_fs w) l', show_rd r, is_exit r)
      else if is_w cmd w_readf then
        let '(r, l') := with_locale true (w_loc w)
                          (fun radix => config_read_file (atof_radix atof radix) (w_fs w) c (hs_or_empty (parse_hs a))) in
        (mkWl (rd_cfg r) (w_fs w) l', show_rd r, is_exit r)
      else if is_w cmd w_writef then
        let path := hs_or_empty (parse_hs a) in
        let '(text, l') := with_locale true (w_loc w) (fun radix => config_write (fmt_radix fmt_double radix) c) in
        let d := match fs_lookup (w_fs w) path with
                 | Some FDir => mkDev (dv_cap (w_dev w)) (dv_fsync_fails (w_dev w)) (dv_close_fails (w_dev w)) true
                 | _ => if dir_exists (w_fs w) path then w_dev w
                        else mkDev (dv_cap (w_dev w)) (dv_fsync_fails (w_dev w)) (dv_close_fails (w_dev w)) true
                 end in
        let r := write_file text (get_option c OPT_FSYNC) d 0 in
        let fs' := match wf_content r with
                   | Some t => fs_put (w_fs w) path (FFile t)
                   | None => w_fs w end in
        (mkWl (set_err c (wf_err r)) fs' l', [[82;32;105; (if wf_ok r then 49 else 48)]], false)
      else if is_w cmd w_lex then
        let '(toks, stop) := lex_top atof (w_fs w) c None (hs_or_empty (parse_hs a)) in
        (w, map show_token toks ++
            [match stop with
             | StopEOB => [82;32;101;111;102] | StopError => [82;32;101;114;114]
             | StopFatal _ => [82;32;102;97;116;97;108] | StopStuck => [82;32;115;116;117;99;107] end], false)
      else api tt
  | [cmd; sub; p] =>
      if is_w cmd w_readck then
        (* config_read from a stream that delivers its data in the given chunk sizes: same bytes *)
        let '(r, l') := with_locale true (w_loc w)
                          (fun radix => config_read (atof_radix atof radix) (w_fs w) c None (hs_or_empty (parse_hs p))) in
        (mkWl (rd_cfg r) (w_fs w) l', show_rd r, is_exit r)
      else if is_w cmd w_locale then
        let l := w_loc w in
        let radix_of := fun nm : bytes => match nm with 120 :: _ => 44 | _ => 46 end in      (* "xx_XX.utf8": comma *)
        if is_w sub w_global then
          let nm := hs_or_empty (parse_hs p) in
          (mkWl c (w_fs w) (mkLoc (mkLobj 0 (radix_of nm) nm) (ls_thread l) (ls_next l) (ls_freed l)),
           [[82;32;117;110;105;116]], false)
        else
          match parse_hs p with
          | Some nm => (mkWl c (w_fs w) (mkLoc (ls_global l) (Some (mkLobj (ls_next l) (radix_of nm) nm))
                                              (ls_next l + 1) (ls_freed l)), [[82;32;117;110;105;116]], false)
          | None => (mkWl c (w_fs w) (mkLoc (ls_global l) None (ls_next l) (ls_freed l)), [[82;32;117;110;105;116]], false)
          end
      else if is_w cmd w_fs_ then
        let path := hs_or_empty (parse_hs p) in
        if is_w sub w_dir then (mkW c (fs_put (w_fs w) path FDir), [[82;32;117;110;105;116]], false)
        else if is_w sub w_rm then (mkW c (fs_remove (w_fs w) path), [[82;32;117;110;105;116]], false)
        else if is_w sub w_cat then
          (w, [[82;32] ++ show_ret (RStr (match fs_lookup (w_fs w) path with
                                          | Some (FFile t) => Some t | _ => None end))], false)
        else (w, [[82;32;63]], false)
      else api tt
  | [cmd; a1; a2; a3; a4] =>
      if is_w cmd w_wdev then
        (mkW_ c (w_fs w) (mkDev (if parse_num a1 <? 0 then None else Some (parse_num a1))
                                (negb (parse_num a2 =? 0)) (negb (parse_num a3 =? 0)) (negb (parse_num a4 =? 0)))
              (w_loc w),
         [[82;32;117;110;105;116]], false)
      else api tt
  | [cmd; sub; p; content] =>
      if is_w cmd w_fs_ && is_w sub w_put then
        (mkW c (fs_put (w_fs w) (hs_or_empty (parse_hs p)) (FFile (hs_or_empty (parse_hs content)))),
         [[82;32;117;110;105;116]], false)
      else api tt
  | _ => api tt
  end.


(* "R i1"/"R i0" of a C read/write turned into the outcome of the C++ member calling it *)
Definition x_io (r : world * list bytes * bool) : world * list bytes * bool :=
  let '(w', out, stop) := r in
  match out with
  | [82;32;105;49] :: rest => (w', show_xret (XR RUnit) :: rest, stop)
  | [82;32;105;48] :: rest => (w', show_xret (x_io_result false (w_cfg w')) :: rest, stop)
  | _ => r
  end.

Definition run_line (w : world) (ln : bytes) : world * list bytes * bool :=
  let ws := words ln in
  match parse_xop ws with
  | Some o =>
      let '(c', out, ev) := cpp_step (w_cfg w) o in
      (mkW_ c' (w_fs w) (w_dev w) (w_loc w), show_xout out :: map show_event ev, false)
  | None =>
      match ws with
      | [cmd] =>
          if is_w cmd w_xinit then
            (* Config::Config(): destructor and hook registered *)
            (mkW_ (set_chook (set_dtor (w_cfg w) true) (Some WRAPPER)) (w_fs w) (w_dev w) (w_loc w),
             [[82;32;117;110;105;116]], false)
          else if is_w cmd w_xclear then run_line_c w w_clear        (* Config::clear() is config_clear() *)
          else if is_w cmd w_xgrouploc then (w, [[82;32;117;110;105;116]], false)   (* a global C++ locale: no effect on the library *)
          else run_line_c w ln
      | [cmd; a] =>
          if is_w cmd w_seterrno then (w, [[82;32;117;110;105;116]], false)    (* the caller's errno: no effect on the library *)
          else if is_w cmd w_xreads then x_io (run_line_c w (w_reads ++ [32] ++ a))
          else if is_w cmd w_xreadf then x_io (run_line_c w (w_readf ++ [32] ++ a))
          else if is_w cmd w_xwritef then x_io (run_line_c w (w_writef ++ [32] ++ a))
          else run_line_c w ln
      | _ => run_line_c w ln
      end
  end.

Fixpoint run_lines (w : world) (ls : list bytes) : list bytes :=
  match ls with
  | [] => []
  | [] :: r => run_lines w r
  | ln :: r =>
      let '(w', out, stop) := run_line w ln in
      if stop then out else out ++ run_lines w' r
  end.

Definition run_script (s : bytes) : bytes :=
  flat_map (fun l => l ++ [10]) (run_lines (mkW cfg_init []) (lines s)).
