(* Run.v — script runner: text in, transcript out.  Definitions only. *)
From Coq Require Import List ZArith Bool.
Import ListNotations.
From LC Require Import Base Tree Fp Lookup Api ApiStep Script.
Local Open Scope Z_scope.

Definition w_dump := [100;117;109;112].
Definition w_case := [99;97;115;101].

Definition is_crash (r : ret) : bool := match r with RCrash => true | _ => false end.

(* one line; returns new state, output lines, and whether to stop *)
Definition run_line (c : cfg) (ln : bytes) : cfg * list bytes * bool :=
  let ws := words ln in
  match ws with
  | [w] => if is_w w w_dump then (c, dump_cfg c, false) else
           match parse_aop ws with
           | Some o => let '(c', r, ev) := api_step c o in (c', show_result r ev, is_crash r)
           | None => (c, [[82;32;63]], false)
           end
  | [w; a] =>
      if is_w w w_case then (cfg_init, [[67; 32] ++ a], false) else
      match parse_aop ws with
      | Some o => let '(c', r, ev) := api_step c o in (c', show_result r ev, is_crash r)
      | None => (c, [[82;32;63]], false)
      end
  | _ =>
      match parse_aop ws with
      | Some o => let '(c', r, ev) := api_step c o in (c', show_result r ev, is_crash r)
      | None => (c, [[82;32;63]], false)
      end
  end.

Fixpoint run_lines (c : cfg) (ls : list bytes) : list bytes :=
  match ls with
  | [] => []
  | [] :: r => run_lines c r
  | ln :: r =>
      let '(c', out, stop) := run_line c ln in
      if stop then out else out ++ run_lines c' r
  end.

Definition run_script (s : bytes) : bytes :=
  flat_map (fun l => l ++ [10]) (run_lines cfg_init (lines s)).
