(* ReadLalr.v — config_read with the parser call replaced by the compiled LALR(1) automaton of lib/grammar.c
   (LalrEngine.lalr_parse over the tables of gen/GrammarTables.v) is the same function as Reader.config_read, on every
   text and file system of bytes: every field of the result (configuration, outcome, events, stdout).  The read-level
   theorems therefore transfer by rewriting; three are restated here. *)
From Coq Require Import List ZArith NArith Bool Lia.
Import ListNotations.
From LC Require Import Base BaseFacts Tree Fp Lookup Api ApiStep Regex RegexFacts ScanAction FlexEngine Bisim Tokens Lexer Parser Reader
  GrammarFacts ParseWrite ParseTotal LexTotal ReadTotal ParseComplete ParseExact LalrEngine LalrFacts.
From LC.gen Require Import Consts.
Local Open Scope Z_scope.

Section ReadL.
  Variable atof : bytes -> Z.

  (* Reader.config_read, the text of its definition, with `p_config ov s0` replaced by the engine run with the fuel
     that LalrFacts.lalr_equiv proves sufficient.  On success the engine's final state is `shift s` for the model's
     `s` (it has shifted the end-of-input token): p_root / p_read of `shift s` are those of `s`, so the text below needs
     no adjustment. *)
  Definition config_read_lalr (FS : fs) (c : cfg) (top : option bytes) (text : bytes) : rd_result :=
    let '(c1, ev_clear) := clear_cfg (set_err c err0) in      (* __config_reset_error, config_clear *)
    let root0 := set_pos (c_root c1) 0 top in          (* config->root->file = top filename *)
    let '(toks, stop) := lex_top atof FS c1 top text in
    let s0 := mkP root0 toks false O 0 None in
    if NEST_LIMIT <? max_nest toks 0 0 then mkRd c1 RdNest ev_clear [] else
    let res := lalr_parse LalrEngine.the_tables (get_option c1 OPT_OVERRIDES) (4 * length toks + 1) s0 in
    let fin := match res with POk s | PErr _ s | PFatal s | PStuck s => s end in
    let rtoks := read_tokens toks (p_read fin) in
    let lastt := last_read toks (p_read fin) in
    let evs := flat_map lt_events rtoks in
    let files := match lastt with Some t => lt_nfiles t | None => match top with Some t => [t] | None => [] end end in
    let err1 := apply_scan_errs (c_err c1) rtoks in
    match res with
    | POk s =>
        mkRd (set_files (set_root c1 (p_root s)) files) RdOk
             (ev_clear ++ flat_map levent_to_event (file_events toks (p_read fin))) (stdout_bytes evs)
    | PErr e s =>
        let err2 := yyerror err1 (p_line s) (perr_text e) in
        let err3 := mkErr 2 (e_text err2) (p_file s) (e_line err2) in
        mkRd (set_err (set_files (set_root c1 (p_root s)) files) err3) RdFail
             (ev_clear ++ flat_map levent_to_event (file_events toks (p_read fin))) (stdout_bytes evs)
    | PFatal s =>
        mkRd (set_root c1 (p_root s))
             (match stop with StopFatal code => RdExit code | _ => RdStuck end)
             (ev_clear ++ flat_map levent_to_event (flat_map lt_events toks)) (stdout_bytes (flat_map lt_events toks))
    | PStuck s => mkRd c1 RdStuck ev_clear []
    end.

  Definition config_read_file_lalr (FS : fs) (c : cfg) (path : bytes) : rd_result :=
    match fs_lookup FS path with
    | Some (FFile content) =>
        let r := config_read_lalr FS c (Some path) content in
        mkRd (rd_cfg r) (rd_out_ r) ([EvOpen path] ++ rd_events r ++ [EvClose path]) (rd_stdout r)
    | Some FDir =>
        mkRd (set_err c (mkErr 1 (Some ERR_IO) None 0)) RdFail
             [EvOpen path; EvClose path] []
    | None =>
        mkRd (set_err c (mkErr 1 (Some ERR_IO) None 0)) RdFail [] []
    end.

  Variable FS : fs.
  Hypothesis FS_ok : forall f content, fs_lookup FS f = Some (FFile content) -> bytes_ok content.

  Theorem config_read_lalr_eq c top text : bytes_ok text ->
    config_read_lalr FS c top text = config_read atof FS c top text.
  Proof.
    intros Hb. unfold config_read_lalr, config_read, clear_cfg.
    pose proof (lex_top_total atof FS FS_ok (set_files (set_root (set_err c err0) new_root) []) top text Hb) as Hl.
    destruct (lex_top atof FS _ top text) as [toks stop]. cbv zeta. destruct Hl as [_ Hst].
    destruct (NEST_LIMIT <? max_nest toks 0 0); [reflexivity|].
    rewrite (lalr_equiv (get_option (set_files (set_root (set_err c err0) new_root) []) OPT_OVERRIDES)
               (set_pos (c_root (set_files (set_root (set_err c err0) new_root) [])) 0 top) toks
               (4 * length toks + 1) Hst eq_refl (le_n _)).
    destruct (p_config _ _) as [s|e s|s|s]; reflexivity.
  Qed.

  Theorem config_read_file_lalr_eq c path :
    config_read_file_lalr FS c path = config_read_file atof FS c path.
  Proof.
    unfold config_read_file_lalr, config_read_file. destruct (fs_lookup FS path) as [[content|]|] eqn:E; try reflexivity.
    cbv zeta. rewrite (config_read_lalr_eq c (Some path) content (FS_ok _ _ E)). reflexivity.
  Qed.

  (* ---- read-level theorems, transferred by rewriting ---- *)
  (* ReadTotal.config_read_total / config_read_file_total (C03): the read answers, and never exits the process *)
  Corollary config_read_lalr_total c top text : bytes_ok text ->
    match rd_out_ (config_read_lalr FS c top text) with
    | RdOk | RdFail | RdNest => True
    | _ => False
    end.
  Proof. intros Hb. rewrite (config_read_lalr_eq c top text Hb). exact (config_read_total atof FS FS_ok c top text Hb). Qed.

  Corollary config_read_file_lalr_total c path :
    match rd_out_ (config_read_file_lalr FS c path) with
    | RdOk | RdFail | RdNest => True
    | _ => False
    end.
  Proof. rewrite config_read_file_lalr_eq. exact (config_read_file_total atof FS FS_ok c path). Qed.

  (* ParseExact.read_accept_iff / read_denotes (C02): the read succeeds exactly on the derivations of the documented
     grammar that meet the semantic conditions, and the configuration is then the denoted one *)
  Corollary read_lalr_accept_iff c top text : bytes_ok text ->
    let toks := fst (lex_top atof FS (set_files (set_root (set_err c err0) new_root) []) top text) in
    max_nest toks 0 0 <= NEST_LIMIT ->
    (rd_out_ (config_read_lalr FS c top text) = RdOk <->
     exists ms, wf_m ms = true /\ spells ms toks /\ sem_m (get_option c OPT_OVERRIDES) ms [] = true).
  Proof. intros Hb. rewrite (config_read_lalr_eq c top text Hb). exact (read_accept_iff atof FS c top text). Qed.

  Corollary read_lalr_denotes c top text : bytes_ok text ->
    let toks := fst (lex_top atof FS (set_files (set_root (set_err c err0) new_root) []) top text) in
    max_nest toks 0 0 <= NEST_LIMIT -> forall ms,
    rd_out_ (config_read_lalr FS c top text) = RdOk -> wf_m ms = true -> spells ms toks ->
    pobs (c_root (rd_cfg (config_read_lalr FS c top text))) = PN None None PGroup 0 (den_m ms []).
  Proof. intros Hb. rewrite (config_read_lalr_eq c top text Hb). exact (read_denotes atof FS c top text). Qed.
End ReadL.

Print Assumptions config_read_lalr_eq.
Print Assumptions config_read_file_lalr_eq.
Print Assumptions read_lalr_accept_iff.

(* ---- examples, evaluated ---- *)
(* "a = { b = [1, 2]; };\nc = \"x\";\n" *)
Definition ex_text_ok : bytes :=
  [97; 32; 61; 32; 123; 32; 98; 32; 61; 32; 91; 49; 44; 32; 50; 93; 59; 32; 125; 59; 10; 99; 32; 61; 32; 34; 120; 34; 59; 10].

Example read_lalr_ok :
  let r := config_read_lalr (fun _ => 0) [] cfg_init None ex_text_ok in
  rd_out_ r = RdOk /\ r = config_read (fun _ => 0) [] cfg_init None ex_text_ok /\
  option_map s_ty (get_at [0%nat; 0%nat] (c_root (rd_cfg r))) = Some TArray /\
  option_map s_pl (get_at [1%nat] (c_root (rd_cfg r))) = Some (PStr (Some [120])).
Proof. vm_compute. repeat split. Qed.

(* "a = 1;\n\nb = [1,\n \"x\"];\n" : mismatched element type, reported at line 4 (when `]` has been read) *)
Definition ex_text_bad : bytes :=
  [97; 32; 61; 32; 49; 59; 10; 10; 98; 32; 61; 32; 91; 49; 44; 10; 32; 34; 120; 34; 93; 59; 10].

Example read_lalr_fail :
  let r := config_read_lalr (fun _ => 0) [] cfg_init None ex_text_bad in
  rd_out_ r = RdFail /\ r = config_read (fun _ => 0) [] cfg_init None ex_text_bad /\
  e_line (c_err (rd_cfg r)) = 4 /\ e_text (c_err (rd_cfg r)) = Some ERR_ARRAY_ELEM_TYPE.
Proof. vm_compute. repeat split. Qed.

(* "a = ( 1 ;\n" : syntax error at line 1 *)
Example read_lalr_syntax :
  let r := config_read_lalr (fun _ => 0) [] cfg_init None [97; 32; 61; 32; 40; 32; 49; 32; 59; 10] in
  rd_out_ r = RdFail /\ e_line (c_err (rd_cfg r)) = 1 /\ e_text (c_err (rd_cfg r)) = Some ERR_SYNTAX.
Proof. vm_compute. repeat split. Qed.
