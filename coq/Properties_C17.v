(* Properties_C17.v — C17: the C++ API agrees with the C API and honours its exception contract.
   Theorems only (proofs in CppFacts.v, LookupFacts.v, HookFacts.v).

   Cpp.v models every member function of libconfigcpp.c++ as its guard (assertType, range test, NULL test)
   around the calls of the C functions it makes; the C functions are those of Api.v/ApiStep.v, so
   "agrees with the C API" is a statement relating cpp_step / cpp_cast to api_step / the C getters.
   The model is tied to lib/libconfigcpp.c++ by the correspondence check of the C17 runner (harness variant
   cxx: one libconfig::Config, C++ calls and C calls interleaved on the same config_t).

   What the model does not carry: the cached fields Setting::_type/_format (a wrapper is modelled by the
   mark in the hook only) and the C++ object lifetime itself (delete of a wrapper): the first is covered
   by the correspondence (Setting::getType/getFormat are compared with the C functions on every call),
   the second by LeakSanitizer/ASan on the real code.  The wrappers theorems below are about the hook
   discipline that decides when the wrapper's delete is called. *)
From Coq Require Import List ZArith Bool Permutation.
Import ListNotations.
From LC Require Import Base Tree Fp Lookup Api ApiStep Cpp TreeFacts ApiFacts Inv HookFacts LookupFacts CppFacts.
Local Open Scope Z_scope.

(* ---- conversions: value, type exception, range exception ---- *)

(* SettingTypeException exactly for the stored types the conversion does not accept *)
Theorem C17_cast_type_exception : forall c k s,
  cpp_cast c k s = XT XType <-> convertible (auto c) (s_ty s) k = false.
Proof. exact cast_type_exception. Qed.
Print Assumptions C17_cast_type_exception.

(* integer settings, every integer target type: the stored value when the target can hold it,
   SettingRangeException otherwise *)
Theorem C17_cast_integers : forall c k s v,
  (s_pl s = PInt v /\ INT_MIN <= v <= INT_MAX) \/ s_pl s = PInt64 v -> int_kind k = true ->
  cpp_cast c k s = if fits k v then XR (RInt v) else XT XRange.
Proof. exact cast_integers. Qed.
Print Assumptions C17_cast_integers.

(* whatever a conversion delivers is what a C getter delivers on the same setting *)
Theorem C17_cast_value_is_c_value : forall c k s r,
  cpp_cast c k s = XR r -> In r (c_value c k s).
Proof. exact cast_value_is_c_value. Qed.
Print Assumptions C17_cast_value_is_c_value.

(* int / long long / double: same success and same value as config_setting_lookup_int / _int64 / _float
   (auto-conversion included) *)
Theorem C17_cast_int_iff_c : forall c s v,
  cpp_cast c CkInt s = XR (RInt v) <-> n_get_int (auto c) s = GOk v.
Proof. exact cast_int_iff_c. Qed.
Print Assumptions C17_cast_int_iff_c.

Theorem C17_cast_ll_iff_c : forall c s v,
  cpp_cast c CkLL s = XR (RInt v) <-> n_get_int64 (auto c) s = GOk v.
Proof. exact cast_ll_iff_c. Qed.
Print Assumptions C17_cast_ll_iff_c.

Theorem C17_cast_double_iff_c : forall c s b,
  cpp_cast c CkDouble s = XR (RFloat b) <-> n_get_float (auto c) s = GOk b.
Proof. exact cast_double_iff_c. Qed.
Print Assumptions C17_cast_double_iff_c.

(* ---- lookupValue and exists never throw ---- *)
Theorem C17_lookups_never_throw : forall c o c' out ev,
  is_lookup_op o = true -> cpp_step c o = (c', out, ev) -> no_throw out /\ ev = [].
Proof. exact lookups_never_throw. Qed.
Print Assumptions C17_lookups_never_throw.

(* Config::lookupValue(path, int &) = config_lookup_int: same return value, same output *)
Theorem C17_lookupValue_int_as_c : forall c path,
  snd (fst (cpp_step c (XLook CkInt path))) = XO (XR (typed_look c KInt
     (match lookup (c_root c) path with Some rel => get_at rel (c_root c) | None => None end)))
  \/ (exists rel, lookup (c_root c) path = Some rel /\ get_at rel (c_root c) = None).
Proof. exact lookupValue_int_as_c. Qed.
Print Assumptions C17_lookupValue_int_as_c.

(* ---- lookup, operator[]: the setting the C function finds, or the documented exception ---- *)
Theorem C17_lookup_exception : forall c path,
  snd (fst (cpp_step c (XLookup path))) =
  match lookup (c_root c) path with
  | Some rel => XO (XR (RNode (Some rel)))
  | None => XO (XT XNotFound)
  end.
Proof. exact lookup_exception. Qed.
Print Assumptions C17_lookup_exception.

Theorem C17_index_exception : forall c p s i,
  get_at p (c_root c) = Some s ->
  snd (fst (cpp_step c (XIdx p i))) =
  if ty_is_aggregate (s_ty s) then
    match snd (fst (api_step c (OElem p i))) with
    | RNode (Some q) => XO (XR (RNode (Some q)))
    | _ => XO (XT XNotFound)
    end
  else XO (XT XType).
Proof. exact index_exception. Qed.
Print Assumptions C17_index_exception.

Theorem C17_member_exception : forall c p s name,
  get_at p (c_root c) = Some s ->
  snd (fst (cpp_step c (XMem p name))) =
  if ty_eqb (s_ty s) TGroup then
    match snd (fst (api_step c (OMember p (Some name)))) with
    | RNode (Some q) => XO (XR (RNode (Some q)))
    | _ => XO (XT XNotFound)
    end
  else XO (XT XType).
Proof. exact member_exception. Qed.
Print Assumptions C17_member_exception.

(* ---- type, format, length, index, root, name ---- *)
Theorem C17_info_agrees : forall c p s,
  let a := cpp_info c p s in let b := c_info c p s in
  to_type_code (i_type a) = i_type b /\ i_type a = cpp_type (s_ty s) /\
  i_fmt a = (if i_fmt b =? 1 then 1 else 0) /\
  i_len a = i_len b /\ i_idx a = i_idx b /\ i_root a = i_root b /\ i_name a = i_name b /\ i_bits a = kind_bits s.
Proof. exact info_agrees. Qed.
Print Assumptions C17_info_agrees.

(* ---- getPath(): the path it returns leads config_lookup back to the same setting ---- *)
Theorem C17_getPath_resolves : forall root ip k,
  wf root = true -> get_at ip root = Some k -> ip <> [] -> indices_small ip ->
  lookup root (cpp_path root ip) = Some ip.
Proof. exact cpp_path_resolves. Qed.
Print Assumptions C17_getPath_resolves.

(* ---- iteration: every child once, in order ---- *)
Theorem C17_iter_visits_children : forall c p s,
  get_at p (c_root c) = Some s -> ty_is_aggregate (s_ty s) = true ->
  exists kids, snd (fst (cpp_step c (XIter p))) = XOIter kids /\
    kids = map (fun i => p ++ [i]) (seq 0 (length (s_kids s))) /\ NoDup kids /\
    (forall i k, nth_error (s_kids s) i = Some k -> nth_error kids i = Some (p ++ [i])).
Proof. exact iter_visits_children. Qed.
Print Assumptions C17_iter_visits_children.

(* ---- wrappers: with Config's destructor registered, after any C++ call the hooks in the tree plus
   those handed to the destructor are the hooks before plus the wrappers created: none lost, none
   released twice, none released while its setting stays ---- *)
Theorem C17_step_wrappers : forall c o c' out ev,
  cpp_step c o = (c', out, ev) -> c_dtor c = true ->
  c_dtor c' = true /\
  exists n, Permutation (destroy_log (c_root c') ++ dtors ev) (destroy_log (c_root c) ++ repeat WRAPPER n).
Proof. exact cpp_step_wrappers. Qed.
Print Assumptions C17_step_wrappers.

Theorem C17_history_then_destroy : forall ops c c' ev cd rd evd,
  c_dtor c = true -> run_x c ops = (c', ev) -> api_step c' ODestroy = (cd, rd, evd) ->
  exists n, Permutation (dtors (ev ++ evd)) (destroy_log (c_root c) ++ repeat WRAPPER n) /\
            destroy_log (c_root cd) = [].
Proof. exact run_x_then_destroy. Qed.
Print Assumptions C17_history_then_destroy.

(* the premises are satisfiable and the statements are not vacuous: an int64 setting out of int range *)
Example C17_range_example :
  cpp_cast cfg_init CkInt (Setting (Some [120]) (PInt64 5000000000) [] 0 None 0 None) = XT XRange /\
  cpp_cast cfg_init CkLL (Setting (Some [120]) (PInt64 5000000000) [] 0 None 0 None) = XR (RInt 5000000000) /\
  cpp_cast cfg_init CkDouble (Setting (Some [120]) (PInt64 5) [] 0 None 0 None) = XT XType.
Proof. vm_compute. repeat split. Qed.
