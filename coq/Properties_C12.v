(* Properties_C12.v — C12: config_write_file never reports success for an incomplete file.
   Theorems only (proofs in RwFacts.v).  write_file (WriteFile.v) is the model of config_write_file over
   a buffered stream and a device that may refuse the open, accept only dv_cap bytes (RLIMIT_FSIZE, full
   disk), fail fsync or fail close; k is the number of bytes that leave stdio's buffer while
   config_write runs (it depends on the buffer size and on how the text is cut into fputs/fprintf calls),
   and every statement holds for every k.

   Assumed stdio contract (trusted base): a push the device does not take completely sets the stream's
   error indicator (seen by ferror), or makes the fflush / fclose that performs it return EOF.

   History: before /repo commit b6cc8ee the results of the writes and of fclose were ignored (F14). *)
From Coq Require Import List ZArith Bool.
Import ListNotations.
From LC Require Import Base Tree Api WriteFile RwFacts StdioModel StdioFacts StdioCap.
Local Open Scope Z_scope.

(* success is reported exactly when the open succeeded, the whole text fitted, the requested fsync
   succeeded and the close succeeded *)
Theorem C12_success_iff : forall text fsync_opt d k,
  wf_ok (write_file text fsync_opt d k) = write_succeeds (Z.of_nat (length text)) fsync_opt d.
Proof. intros. apply (write_file_spec text fsync_opt d k). Qed.
Print Assumptions C12_success_iff.

(* when it reports success, the file's content is exactly what config_write produces *)
Theorem C12_complete : forall text fsync_opt d k,
  wf_ok (write_file text fsync_opt d k) = true ->
  wf_content (write_file text fsync_opt d k) = Some text /\ wf_err (write_file text fsync_opt d k) = err0.
Proof. intros text f d k. apply (write_file_spec text f d k). Qed.
Print Assumptions C12_complete.

(* if opening the file, any write, the flush at close or the requested fsync fails, it reports an I/O
   failure *)
Theorem C12_reports : forall text fsync_opt d k,
  (dv_open_fails d = true \/ fits d (Z.of_nat (length text)) = false \/
   (fsync_opt = true /\ dv_fsync_fails d = true) \/ dv_close_fails d = true) ->
  wf_ok (write_file text fsync_opt d k) = false /\ wf_err (write_file text fsync_opt d k) = io_error.
Proof.
  intros text f d k H.
  destruct (write_file_spec text f d k) as (H1 & _ & H3). cbv zeta in *.
  assert (E : wf_ok (write_file text f d k) = false).
  { rewrite H1. unfold write_succeeds. destruct H as [-> | [-> | [[-> ->] | ->]]]; cbn [negb andb];
      rewrite ?andb_false_r; reflexivity. }
  split; [exact E | exact (H3 E)].
Qed.
Print Assumptions C12_reports.

(* non-vacuity: a device that accepts everything; one that is full after 3 bytes *)
Example C12_examples :
  wf_ok (write_file [97; 61; 49; 59; 10] true dev_ok 2) = true /\
  wf_ok (write_file [97; 61; 49; 59; 10] false (mkDev (Some 3) false false false) 0) = false /\
  wf_ok (write_file [97; 61; 49; 59; 10] false (mkDev (Some 3) false false false) 5) = false /\
  wf_ok (write_file [97; 61; 49; 59; 10] true (mkDev None true false false) 1) = false /\
  wf_ok (write_file [97; 61; 49; 59; 10] false (mkDev None true false false) 1) = true.
Proof. repeat split. Qed.

(* ---- stdio level (StdioModel.v / StdioFacts.v): a buffered stream with a STICKY error indicator over a device whose
   write(2) calls succeed, are partial or fail according to an arbitrary schedule; config_write_file = put the text,
   consult ferror, [fflush + fsync], fclose.  The device-capacity model above is the special case "every write beyond
   the capacity fails"; here a failure may be TRANSIENT (later writes succeed). ---- *)

(* success means that the whole serialisation reached the file, in order, nothing dropped - for every buffer size,
   every schedule of write results, every text *)
Theorem C12_stdio_success_complete : forall B sched fsync_opt fsync_ok close_ok text,
  fst (write_file_model B sched fsync_opt fsync_ok close_ok text) = true ->
  snd (write_file_model B sched fsync_opt fsync_ok close_ok text) = text.
Proof. exact write_file_success_complete. Qed.
Print Assumptions C12_stdio_success_complete.

(* success is reported exactly when no write(2) call failed (a transient failure followed by successful writes
   included), the requested fsync succeeded and the close succeeded *)
Theorem C12_stdio_success_iff : forall B sched fsync_opt fsync_ok close_ok text,
  fst (write_file_run B sched fsync_opt fsync_ok close_ok text) = true <->
  (st_fails (snd (write_file_run B sched fsync_opt fsync_ok close_ok text)) = 0%nat /\
   (fsync_opt = true -> fsync_ok = true) /\ close_ok = true).
Proof. exact write_file_success_iff. Qed.
Print Assumptions C12_stdio_success_iff.

Theorem C12_stdio_any_failure : forall B sched fsync_opt fsync_ok close_ok text,
  st_fails (snd (write_file_run B sched fsync_opt fsync_ok close_ok text)) <> 0%nat ->
  fst (write_file_model B sched fsync_opt fsync_ok close_ok text) = false.
Proof. exact write_file_any_failure. Qed.
Print Assumptions C12_stdio_any_failure.

(* a schedule without a failing write (partial writes allowed) loses nothing; the result is that of fsync and close *)
Theorem C12_stdio_no_fail : forall B sched fsync_opt fsync_ok close_ok text,
  fails_in sched = 0%nat ->
  write_file_model B sched fsync_opt fsync_ok close_ok text = ((if fsync_opt then fsync_ok else true) && close_ok, text).
Proof. exact write_file_no_fail. Qed.
Print Assumptions C12_stdio_no_fail.

(* the three ways of not consulting the sticky indicator (trusting fflush's result, skipping the check when FSYNC is
   set, trusting fclose alone) report success for a file that lost bytes 4..8: the ferror check is needed *)
Example C12_stdio_variants_refuted :
  write_file_model 4 [WAll; WFail; WAll; WAll] false true true ex_text = (false, [48; 49; 50; 51; 57]%Z) /\
  write_file_fflush_variant 4 [WAll; WFail; WAll; WAll] false true true ex_text = (true, [48; 49; 50; 51; 57]%Z) /\
  write_file_skip_variant 4 [WAll; WFail; WAll; WAll] true true true ex_text = (true, [48; 49; 50; 51; 57]%Z) /\
  write_file_close_variant 4 [WAll; WFail; WAll; WAll] true ex_text = (true, [48; 49; 50; 51; 57]%Z).
Proof. vm_compute. repeat split. Qed.

(* ---- the two models are one (StdioCap.v): the stdio model with a state-dependent oracle for the write(2) calls, the capacity
   device as the oracle "everything that fits is written, then every call fails"; the device model write_file - the one the
   extracted driver runs against the real function - is that instance, for every buffer size B and every split k ---- *)
Theorem C12_capacity_device_is_stdio_instance : forall (B : nat) text fsync_opt d k,
  dv_open_fails d = false ->
  match dv_cap d with Some c => (0 <= c) \/ text <> nil | None => True end ->
  let r := write_file text fsync_opt d k in
  let m := write_file_model_o (cap_orc (dv_cap d)) B fsync_opt (negb (dv_fsync_fails d)) (negb (dv_close_fails d)) text in
  wf_ok r = fst m /\ wf_content r = Some (snd m).
Proof. exact cap_instance. Qed.
Print Assumptions C12_capacity_device_is_stdio_instance.

(* whatever the write(2) calls do, as a function of what the file holds and of what is offered: success => complete *)
Theorem C12_stdio_oracle_success_complete : forall orc B fsync_opt fsync_ok close_ok text,
  fst (write_file_model_o orc B fsync_opt fsync_ok close_ok text) = true ->
  snd (write_file_model_o orc B fsync_opt fsync_ok close_ok text) = text.
Proof. exact write_file_success_complete_o. Qed.
Print Assumptions C12_stdio_oracle_success_complete.

(* closed form under a capacity c >= 0: success iff the text fits and fsync / close succeed; otherwise the file holds the
   first c bytes *)
Theorem C12_capacity_closed_form : forall c, 0 <= c -> forall B fsync_opt fsync_ok close_ok text,
  write_file_model_o (cap_orc (Some c)) B fsync_opt fsync_ok close_ok text =
  ((Z.of_nat (List.length text) <=? c) && (if fsync_opt then fsync_ok else true) && close_ok,
   if (Z.of_nat (List.length text) <=? c) then text else firstn (Z.to_nat c) text).
Proof. exact cap_model. Qed.
Print Assumptions C12_capacity_closed_form.
