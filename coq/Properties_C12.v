(* Properties_C12.v — C12: config_write_file never reports success for an incomplete file.
   Theorems only (proofs in RwFacts.v).  write_file (WriteFile.v) is the model of config_write_file over
   a buffered stream and a device that may refuse the open, accept only dv_cap bytes (RLIMIT_FSIZE, full
   disk), fail fsync or fail close; k is the number of bytes that leave stdio's buffer while
   config_write runs (it depends on the buffer size and on how the text is cut into fputs/fprintf calls),
   and every statement holds for every k.

   Assumed stdio contract (trusted base): a push the device does not take completely sets the stream's
   error indicator (seen by ferror), or makes the fflush / fclose that performs it return EOF.

   History: before /repo commit b6cc8ee the results of the writes and of fclose were ignored (F14). *)
From Coq Require Import List ZArith Bool.
Import ListNotations.
From LC Require Import Base Tree Api WriteFile RwFacts.
Local Open Scope Z_scope.

(* success is reported exactly when the open succeeded, the whole text fitted, the requested fsync
   succeeded and the close succeeded *)
Theorem C12_success_iff : forall text fsync_opt d k,
  wf_ok (write_file text fsync_opt d k) = write_succeeds (Z.of_nat (length text)) fsync_opt d.
Proof. intros. apply (write_file_spec text fsync_opt d k). Qed.
Print Assumptions C12_success_iff.

(* when it reports success, the file's content is exactly what config_write produces *)
Theorem C12_complete : forall text fsync_opt d k,
  wf_ok (write_file text fsync_opt d k) = true ->
  wf_content (write_file text fsync_opt d k) = Some text /\ wf_err (write_file text fsync_opt d k) = err0.
Proof. intros text f d k. apply (write_file_spec text f d k). Qed.
Print Assumptions C12_complete.

(* if opening the file, any write, the flush at close or the requested fsync fails, it reports an I/O
   failure *)
Theorem C12_reports : forall text fsync_opt d k,
  (dv_open_fails d = true \/ fits d (Z.of_nat (length text)) = false \/
   (fsync_opt = true /\ dv_fsync_fails d = true) \/ dv_close_fails d = true) ->
  wf_ok (write_file text fsync_opt d k) = false /\ wf_err (write_file text fsync_opt d k) = io_error.
Proof.
  intros text f d k H.
  destruct (write_file_spec text f d k) as (H1 & _ & H3). cbv zeta in *.
  assert (E : wf_ok (write_file text f d k) = false).
  { rewrite H1. unfold write_succeeds. destruct H as [-> | [-> | [[-> ->] | ->]]]; cbn [negb andb];
      rewrite ?andb_false_r; reflexivity. }
  split; [exact E | exact (H3 E)].
Qed.
Print Assumptions C12_reports.

(* non-vacuity: a device that accepts everything; one that is full after 3 bytes *)
Example C12_examples :
  wf_ok (write_file [97; 61; 49; 59; 10] true dev_ok 2) = true /\
  wf_ok (write_file [97; 61; 49; 59; 10] false (mkDev (Some 3) false false false) 0) = false /\
  wf_ok (write_file [97; 61; 49; 59; 10] false (mkDev (Some 3) false false false) 5) = false /\
  wf_ok (write_file [97; 61; 49; 59; 10] true (mkDev None true false false) 1) = false /\
  wf_ok (write_file [97; 61; 49; 59; 10] false (mkDev None true false false) 1) = true.
Proof. repeat split. Qed.
