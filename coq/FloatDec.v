(* FloatDec.v — exact decimal <-> binary64 conversions: glibc printf("%.*f"), printf("%.*g"),
   strtod/atof, and libconfig_format_double (lib/util.c) built on them.  Definitions only.

   A double is its 64-bit pattern (Fp.v): a finite one is (-1)^sign * b64_m * 2^(b64_e).
   Everything is exact integer arithmetic.  Powers of ten are never built directly: 10^n is
   split into 5^n (Z.pow, |n| is bounded by about 1200 at every call site, see the clamps) and a
   binary shift.  All roundings are round-half-to-even on the exact value (glibc in the default
   rounding mode).  Validated against glibc 2.36 by /verif/tools/floatdiff/run.sh. *)
From Coq Require Import List ZArith Bool.
Import ListNotations.
From LC Require Import Base Fp.
Local Open Scope Z_scope.

(* ------------------------------------------------------------------------------------------ *)
(* exact rounding primitives                                                                    *)
(* ------------------------------------------------------------------------------------------ *)

Definition pow5 (n : Z) : Z := 5 ^ n.                       (* n >= 0 at every use *)

(* round-half-even of a / 2^n        (a >= 0; n <= 0 means no shift) *)
Definition shr_rne (a n : Z) : Z :=
  if n <=? 0 then a
  else
    let q := Z.shiftr a n in
    let r := Z.land a (Z.ones n) in                         (* a mod 2^n *)
    let half := Z.shiftl 1 (n - 1) in
    if r <? half then q
    else if half <? r then q + 1
    else if Z.odd q then q + 1 else q.

(* round-half-even of a / b          (a >= 0, b > 0) *)
Definition div_rne (a b : Z) : Z :=
  let (q, r) := Z.div_eucl a b in
  match 2 * r ?= b with
  | Lt => q
  | Gt => q + 1
  | Eq => if Z.odd q then q + 1 else q
  end.

(* round-half-even of  m * 2^e / 10^s   (m >= 0; e, s any sign).
   10^s = 5^s * 2^s, so the value is  m * 5^(-s) * 2^(e-s)  or  m * 2^(e-s) / 5^s. *)
Definition scaled_rne (m e s : Z) : Z :=
  let k := e - s in
  if s <=? 0 then
    let a := m * pow5 (- s) in
    if 0 <=? k then Z.shiftl a k else shr_rne a (- k)
  else
    let b := pow5 s in
    if 0 <=? k then div_rne (Z.shiftl m k) b else div_rne m (Z.shiftl b (- k)).

(* 10^x <= m * 2^e   (m > 0), by cross-multiplication:  5^x * 2^(x-e) <= m *)
Definition pow10_le (x m e : Z) : bool :=
  let k := x - e in
  Z.shiftl (pow5 (Z.max x 0)) (Z.max k 0)
    <=? Z.shiftl (m * pow5 (Z.max (- x) 0)) (Z.max (- k) 0).

(* floor (log10 (m * 2^e))   (m > 0).
   With L = floor(log2 (m 2^e)):  L*log10(2) <= log10 v < (L+1)*log10(2), and
   |L * (0.30103 - log10 2)| < 0.01 for |L| < 2*10^6, so the true value is within 1 of the
   estimate; the two exact comparisons pick it. *)
Definition ilog10 (m e : Z) : Z :=
  let x := ((Z.log2 m + e) * 30103) / 100000 in
  if pow10_le (x + 1) m e then x + 1
  else if pow10_le x m e then x
  else x - 1.

(* ------------------------------------------------------------------------------------------ *)
(* digit-list helpers                                                                           *)
(* ------------------------------------------------------------------------------------------ *)

Fixpoint drop_zeros (l : list Z) : list Z :=
  match l with
  | 0 :: r => drop_zeros r
  | _ => l
  end.

(* remove trailing 0 elements *)
Definition strip_tz (l : list Z) : list Z := rev (drop_zeros (rev l)).

Fixpoint drop_char (c : Z) (l : bytes) : bytes :=
  match l with
  | x :: r => if x =? c then drop_char c r else l
  | [] => []
  end.

(* remove trailing bytes equal to c *)
Definition strip_trailing (c : Z) (l : bytes) : bytes := rev (drop_char c (rev l)).

Definition dec_chars (ds : list Z) : bytes := map dec_char ds.

Definition zeros (n : Z) : list Z := replicate (Z.to_nat n) 0.

Definition lenZ {A} (l : list A) : Z := Z.of_nat (length l).

Definition sign_text (b : Z) : bytes := if b64_sign b =? 1 then [45] else [].

(* "inf" / "nan" with the sign: glibc prints "-nan" for a NaN with the sign bit set *)
Definition nonfinite_text (b : Z) : bytes :=
  sign_text b ++ (if b64_is_nan b then [110; 97; 110] else [105; 110; 102]).

(* ------------------------------------------------------------------------------------------ *)
(* printf("%.*f", prec, x)                                                                      *)
(* ------------------------------------------------------------------------------------------ *)

(* A negative precision argument of '*' counts as omitted: 6. *)
Definition norm_prec (prec : Z) : Z := if prec <? 0 then 6 else prec.

(* The exact expansion of m * 2^e has max(-e,0) <= 1074 fractional digits, so rounding at
   p' = min(prec, max(-e,0)) digits and padding with zeros is the same as rounding at prec
   digits; this keeps 5^p' bounded whatever the precision. *)
Definition fmt_f (prec : Z) (b : Z) : bytes :=
  let prec := norm_prec prec in
  if negb (b64_is_finite b) then nonfinite_text b
  else
    let m := b64_m b in
    let e := b64_e b in
    let p' := Z.min prec (Z.max (- e) 0) in
    let q := scaled_rne m e (- p') in                       (* round (m 2^e 10^p') *)
    let ds0 := nat_digits 10 q in
    let ds := zeros (p' + 1 - lenZ ds0) ++ ds0 in           (* at least p'+1 digits *)
    let ni := (length ds - Z.to_nat p')%nat in
    sign_text b ++ dec_chars (firstn ni ds) ++
    (if prec =? 0 then []
     else 46 :: dec_chars (skipn ni ds ++ zeros (prec - p'))).

(* ------------------------------------------------------------------------------------------ *)
(* printf("%.*g", prec, x)                                                                      *)
(* ------------------------------------------------------------------------------------------ *)

(* exponent field of %e: sign, at least two digits *)
Definition exp_text (x : Z) : bytes :=
  let a := Z.abs x in
  (if x <? 0 then 45 else 43) ::
  (if a <? 10 then [48] else []) ++ dec_chars (nat_digits 10 a).

(* P significant digits.  x0 = floor(log10 v); the last kept digit has weight 10^s with
   s = x0 - P + 1, clamped below at min(e,0) where the expansion of m*2^e ends (then nothing is
   rounded away and the digits that are not produced are zeros that %g would strip anyway;
   the clamp only triggers with s <= 0, i.e. on fractional positions).  The decimal exponent X
   of the ROUNDED value is read off the digit count (x0, or x0+1 when 99..9 rounds up). *)
Definition fmt_g (prec : Z) (b : Z) : bytes :=
  let prec := norm_prec prec in
  let P := if prec =? 0 then 1 else prec in
  if negb (b64_is_finite b) then nonfinite_text b
  else
    let m := b64_m b in
    let e := b64_e b in
    if m =? 0 then sign_text b ++ [48]
    else
      let x0 := ilog10 m e in
      let s := Z.max (x0 - P + 1) (Z.min e 0) in
      let q := scaled_rne m e s in
      let ds0 := nat_digits 10 q in
      let X := s + lenZ ds0 - 1 in
      let ds := strip_tz ds0 in                             (* leading digit is non-zero *)
      if (X <? P) && (-4 <=? X) then
        (* fixed notation, precision P-1-X, trailing zeros and a trailing '.' removed *)
        if 0 <=? X then
          let ni := Z.to_nat (X + 1) in
          let ip := firstn ni (ds ++ zeros (X + 1 - lenZ ds)) in
          let fp := skipn ni ds in
          sign_text b ++ dec_chars ip ++
          (match fp with [] => [] | _ => 46 :: dec_chars fp end)
        else
          sign_text b ++ [48; 46] ++ dec_chars (zeros (- X - 1) ++ ds)
      else
        (* exponential notation d.ddde+XX *)
        match ds with
        | [] => []                                           (* unreachable: q > 0 *)
        | d :: r =>
            sign_text b ++ dec_char d ::
            (match r with [] => [] | _ => 46 :: dec_chars r end) ++
            101 :: exp_text X
        end.

(* ------------------------------------------------------------------------------------------ *)
(* decimal -> binary64, correctly rounded                                                       *)
(* ------------------------------------------------------------------------------------------ *)

Definition b64_inf_bits : Z := 2047 * two52.                (* 0x7ff0000000000000 *)
Definition b64_nan_bits : Z := 2047 * two52 + two52 / 2.    (* 0x7ff8000000000000 *)

(* Nearest-even binary64 (bit pattern, sign clear) of x * 2^t for an integer x >= 0; gradual
   underflow, overflow to infinity.  u is the exponent of the unit in the last place of the
   result; (u + 1074) * 2^52 + mant encodes denormals (u = -1074, mant < 2^52), normals, and
   the carry of mant = 2^53 into the next binade alike.  The two early exits keep the shifts
   small whatever t is: n + t > 1025 means x 2^t >= 2^1025; n + t < -1080 means
   x 2^t < 2^-1080, far below half the least denormal. *)
Definition b64_round_pos (x t : Z) : Z :=
  if x <=? 0 then 0
  else
    let n := Z.log2 x + 1 in
    if 1025 <? n + t then b64_inf_bits
    else if n + t <? -1080 then 0
    else
      let u := Z.max (n + t - 53) (-1074) in
      let mant := if u <=? t then Z.shiftl x (t - u) else shr_rne x (u - t) in
      let bits := (u + 1074) * two52 + mant in
      if b64_inf_bits <=? bits then b64_inf_bits else bits.

(* At most this many significant decimal digits are used exactly; the rest is folded into one
   sticky digit.  Every double, every midpoint between adjacent doubles and the overflow
   threshold is k * 2^-1075 with at most 768 significant decimal digits, so none of them lies
   strictly between two consecutive 800-digit decimals: the truncated-plus-sticky number and
   the full number round alike. *)
Definition dec_max_digits : nat := 800%nat.

(* Correctly rounded double of  (-1)^neg * (digits as a decimal integer) * 10^exp10.
   [digits] are digit VALUES 0..9, most significant first (leading zeros allowed, [] is 0).
   With nd significant digits the magnitude lies in [10^(nd-1+exp10), 10^(nd+exp10)), so
   nd + exp10 > 400 is an overflow and nd + exp10 < -400 rounds to zero; past these exits
   |exp10| <= 400 + 801, which bounds the power of five.
   For exp10 < 0 the quotient d * 2^j / 5^-exp10 is taken with at least 57 bits and the
   remainder folded into a sticky bit, which b64_round_pos then rounds once. *)
Definition b64_of_decimal (neg : bool) (digits : list Z) (exp10 : Z) : Z :=
  let sgn := if neg then two63 else 0 in
  let ds := drop_zeros digits in
  match ds with
  | [] => sgn
  | _ =>
    let nd := lenZ ds in
    if 400 <? nd + exp10 then sgn + b64_inf_bits
    else if nd + exp10 <? -400 then sgn
    else
      let tl := skipn dec_max_digits ds in
      let '(ds', e') :=
        match tl with
        | [] => (ds, exp10)
        | _ => (firstn dec_max_digits ds ++ [if forallb (Z.eqb 0) tl then 0 else 1],
                exp10 + lenZ tl - 1)
        end in
      let d := fold_left (fun acc x => acc * 10 + x) ds' 0 in
      sgn +
      (if 0 <=? e' then b64_round_pos (d * pow5 e') e'
       else
         let bq := pow5 (- e') in
         let j := Z.max 0 (57 + Z.log2 bq - Z.log2 d) in
         let (q, r) := Z.div_eucl (Z.shiftl d j) bq in
         b64_round_pos (2 * q + (if r =? 0 then 0 else 1)) (e' - j - 1))
  end.

(* ------------------------------------------------------------------------------------------ *)
(* strtod / atof (C locale)                                                                     *)
(* ------------------------------------------------------------------------------------------ *)

(* value of a digit string saturated at [bound] (monotone, so >= bound iff the true value is) *)
Definition sat_digits_val (bound : Z) (s : bytes) : Z :=
  fold_left (fun acc c => Z.min bound (acc * 10 + (c - 48))) s 0.

Definition opt_sign (s : bytes) : bool * bytes :=
  match s with
  | 45 :: r => (true, r)
  | 43 :: r => (false, r)
  | _ => (false, s)
  end.

(* optional exponent part  [mk][-+]?[0-9]+  (mk = e/E or p/P); 0 when absent or malformed.
   The value is saturated at +-bound. *)
Definition exp_part (lower upper bound : Z) (s : bytes) : Z :=
  match s with
  | c :: r =>
      if (c =? lower) || (c =? upper) then
        let '(eneg, r') := opt_sign r in
        let '(ed, _) := span is_digit r' in
        match ed with
        | [] => 0
        | _ => let v := sat_digits_val bound ed in if eneg then - v else v
        end
      else 0
  | [] => 0
  end.

Definition lower_char (c : Z) : Z := if is_upper c then c + 32 else c.

Fixpoint has_prefix_ci (p s : bytes) : bool :=
  match p, s with
  | [], _ => true
  | x :: p', y :: s' => (x =? lower_char y) && has_prefix_ci p' s'
  | _ :: _, [] => false
  end.

(* Decimal subject sequence after the sign: digits [. digits] [exponent], at least one digit.
   The exponent is saturated at len + 1000 where len bounds the number of digits: a saturated
   exponent still leaves (digit count + exp10) beyond +-400, where b64_of_decimal exits. *)
Definition strtod_dec (neg : bool) (s : bytes) : Z :=
  let '(ip, r1) := span is_digit s in
  let '(fp, r2) := match r1 with
                   | 46 :: r => span is_digit r
                   | _ => ([], r1)
                   end in
  match ip ++ fp with
  | [] => 0                                                  (* no conversion: +0.0 *)
  | ds =>
      let ex := exp_part 101 69 (lenZ s + 1000) r2 in
      b64_of_decimal neg (map (fun c => c - 48) ds) (ex - lenZ fp)
  end.

(* Hexadecimal subject sequence after "0x": hexdigits [. hexdigits] [p exponent]; without any
   hex digit only the "0" before the 'x' is converted. *)
Definition strtod_hex (neg : bool) (s : bytes) : Z :=
  let sgn := if neg then two63 else 0 in
  let '(ip, r1) := span is_xdigit s in
  let '(fp, r2) := match r1 with
                   | 46 :: r => span is_xdigit r
                   | _ => ([], r1)
                   end in
  match ip ++ fp with
  | [] => sgn
  | ds =>
      let ex := exp_part 112 80 (4 * lenZ s + 5000) r2 in
      let h := fold_left (fun acc c => acc * 16 + digit_val c) ds 0 in
      sgn + b64_round_pos h (ex - 4 * lenZ fp)
  end.

(* Bit pattern returned by glibc strtod(s, NULL) / atof(s) in the C locale, default rounding
   mode: leading white space, optional sign, then inf / infinity / nan (any case; an
   n-char-sequence payload "nan(...)" is NOT interpreted), a hexadecimal or a decimal number;
   the longest valid prefix counts and no valid prefix gives +0.0 (also for "-." and "-"). *)
Definition strtod_bits (s : bytes) : Z :=
  let '(_, s1) := span is_space s in
  let '(neg, s2) := opt_sign s1 in
  let sgn := if neg then two63 else 0 in
  if has_prefix_ci [105; 110; 102] s2 then sgn + b64_inf_bits
  else if has_prefix_ci [110; 97; 110] s2 then sgn + b64_nan_bits
  else
    match s2 with
    | 48 :: x :: r => if (x =? 120) || (x =? 88) then strtod_hex neg r else strtod_dec neg s2
    | _ => strtod_dec neg s2
    end.

(* ------------------------------------------------------------------------------------------ *)
(* libconfig_format_double (lib/util.c)                                                         *)
(* ------------------------------------------------------------------------------------------ *)

(* snprintf(buf, buflen - 3, sci_ok ? "%.*g" : "%.*f", precision, val) keeps the first
   buflen - 4 characters of the rendering (meaningful for buflen >= 4; the caller uses 64).
   Then: an 'e' anywhere -> done; no '.' -> append ".0" (so "inf" -> "inf.0", "-nan" ->
   "-nan.0", and an integer part cut by the truncation also gets ".0"); otherwise trailing '0'
   characters after the position following the '.' are removed. *)
Definition format_double (b : Z) (prec : Z) (sci : bool) (buflen : Z) : bytes :=
  let full := if sci then fmt_g prec b else fmt_f prec b in
  let buf := firstn (Z.to_nat (buflen - 4)) full in
  if existsb (Z.eqb 101) buf then buf
  else
    match find_index (Z.eqb 46) buf with
    | None => buf ++ [46; 48]
    | Some i =>
        let keep := S (S i) in                               (* through the char after '.' *)
        firstn keep buf ++ strip_trailing 48 (skipn keep buf)
    end.
