(* Writer.v — config_write: __config_write_setting / __config_write_value / __config_indent.
   Definitions only.  [fmt_double bits prec sci] is libconfig_format_double with the caller's 64-byte
   buffer. *)
From Coq Require Import List ZArith Bool.
Import ListNotations.
From LC Require Import Base Tree Api.
Local Open Scope Z_scope.

Section Write.
  Variable fmt_double : Z -> Z -> bool -> bytes.
  Variable c : cfg.

  Definition indent (depth : Z) : bytes :=
    let w := c_tab c in
    if w =? 0 then replicate (Z.to_nat (depth - 1)) 9
    else
      let n := (depth - 1) * w in
      (* "%*s" of " ": at least the one character *)
      replicate (Z.to_nat (if n <=? 1 then 1 else n)) 32.

  Definition esc_char (ch : Z) : bytes :=
    if (ch =? 34) || (ch =? 92) then [92; ch]
    else if ch =? 10 then [92; 110]
    else if ch =? 13 then [92; 114]
    else if ch =? 12 then [92; 102]
    else if ch =? 9 then [92; 116]
    else if 32 <=? ch then [ch]
    else [92; 120; hex_char_upper (ch / 16); hex_char_upper (ch mod 16)].

  Definition write_string (o : option bytes) : bytes :=
    [34] ++ match o with Some s => flat_map esc_char s | None => [] end ++ [34].

  Definition write_scalar (pl : payload) (fmt : Z) : bytes :=
    match pl with
    | PBool v => if v =? 0 then [102;97;108;115;101] else [116;114;117;101]
    | PInt v => if fmt =? 1 then [48;120] ++ show_hex_upper (to_uint32 v) else show_dec v
    | PInt64 v => if fmt =? 1 then [48;120] ++ show_hex_upper (to_uint64 v) ++ [76]
                  else show_dec v ++ [76]
    | PFloat b => fmt_double b (c_prec c) (get_option c OPT_SCI)
    | PStr o => write_string o
    | _ => [63;63;63]
    end.

  Definition eff_fmt (s : setting) : Z := n_get_format (c_deffmt c) s.

  Definition semis : bytes := if get_option c OPT_SEMICOLON then [59] else [].
  Definition assign_char (group : bool) : Z :=
    if group then (if get_option c OPT_COLON_GROUPS then 58 else 61)
    else (if get_option c OPT_COLON_NONGROUPS then 58 else 61).

  (* __config_write_value at [depth]; members of groups through write_setting at depth+1 *)
  Fixpoint write_value (s : setting) (depth : Z) {struct s} : bytes :=
    let 'Setting _ pl kids _ _ _ _ := s in
    match pl with
    | PList | PArray =>
        let '(o, cl) := match pl with PList => (40, 41) | _ => (91, 93) end in
        [o; 32] ++
        (fix elems (l : list setting) : bytes :=
           match l with
           | [] => []
           | [e] => write_value e (depth + 1) ++ [32]
           | e :: r => write_value e (depth + 1) ++ [44; 32] ++ elems r
           end) kids ++ [cl]
    | PGroup =>
        (if 0 <? depth then
           (if get_option c OPT_BRACE_NEWLINE
            then [10] ++ (if 1 <? depth then indent depth else []) else [])
           ++ [123; 10]
         else []) ++
        (fix members (l : list setting) : bytes :=
           match l with
           | [] => []
           | m :: r =>
               (* __config_write_setting(m, depth + 1) *)
               let d := depth + 1 in
               (if 1 <? d then indent d else []) ++
               (match s_name m with
                | Some n => n ++ [32; assign_char (ty_eqb (s_ty m) TGroup); 32]
                | None => []
                end) ++
               write_value m d ++
               (if 0 <? d then semis ++ [10] else []) ++
               members r
           end) kids ++
        (if 1 <? depth then indent depth else []) ++
        (if 0 <? depth then [125] else [])
    | _ => write_scalar pl (eff_fmt s)
    end.

  (* config_write: __config_write_setting(root, depth 0) *)
  Definition config_write : bytes :=
    let r := c_root c in
    (match s_name r with
     | Some n => n ++ [32; assign_char (ty_eqb (s_ty r) TGroup); 32]
     | None => []
     end) ++ write_value r 0.
End Write.
