(* Properties_C16.v — C16: hooks are released exactly once; library-owned strings live as documented.
   Theorems only (proofs in HookFacts.v).  destroy_log s is the model of __config_setting_destroy(s): the
   hooks of the settings of the subtree s in the order the destructor is called on them; dtors ev
   extracts the destructor calls from the events of a step.

   The string-lifetime clause ("strings handed out stay valid and unchanged until the setting's value is
   changed or the setting is destroyed") is about pointer validity, which the functional model does not
   carry: strings are values, so a stored string is a copy by construction (C16_strings_are_values) and
   the lifetime itself is checked on the real library by the harness (snapshots of every handed-out
   pointer re-read under ASan).  That clause is therefore tied by correspondence only. *)
From Coq Require Import List ZArith Bool Permutation.
Import ListNotations.
From LC Require Import Base Tree Fp Lookup Api ApiStep TreeFacts ApiFacts HookFacts
  ScanAction FlexEngine Tokens Lexer Parser Reader NewSetting.
Local Open Scope Z_scope.

(* destruction order: children first, in order, then the setting's own hook *)
Theorem C16_destroy_order : forall s,
  destroy_log s = flat_map destroy_log (s_kids s) ++ own_hook s.
Proof. exact destroy_log_unfold. Qed.
Print Assumptions C16_destroy_order.

(* every operation (additions, removals, overrides, assignments, clears, destruction, failing calls
   included) conserves hooks: those present before = those still in the tree + those handed to the
   destructor during this very call *)
Theorem C16_step : forall c o c' r ev,
  api_step c o = (c', r, ev) -> c_dtor c = true -> hook_neutral o = true ->
  Permutation (destroy_log (c_root c)) (destroy_log (c_root c') ++ dtors ev).
Proof. exact step_hooks. Qed.
Print Assumptions C16_step.

(* attaching a hook adds exactly it (the previous hook value of that setting is overwritten, as
   config_setting_set_hook documents, without a destructor call) *)
Theorem C16_set_hook : forall c p h c' r ev,
  api_step c (OHook p h) = (c', r, ev) ->
  ev = [] /\
  match get_at p (c_root c) with
  | Some s => Permutation (destroy_log (c_root c) ++ match h with Some x => [x] | None => [] end)
                          (destroy_log (c_root c') ++ own_hook s)
  | None => c' = c
  end.
Proof. exact step_set_hook. Qed.
Print Assumptions C16_set_hook.

(* no destructor registered: no call *)
Theorem C16_no_destructor : forall c o c' r ev,
  api_step c o = (c', r, ev) -> c_dtor c = false -> dtors ev = [].
Proof. exact step_no_dtor. Qed.
Print Assumptions C16_no_destructor.

(* over any history: hooks at the start = hooks alive at the end + all destructor calls so far *)
Theorem C16_history : forall ops c c' ev,
  run_ev c ops = (c', ev) -> c_dtor c = true ->
  forallb hook_neutral ops = true -> (forall o, In o ops -> o <> ODestroy) ->
  Permutation (destroy_log (c_root c)) (destroy_log (c_root c') ++ dtors ev).
Proof. exact run_hooks. Qed.
Print Assumptions C16_history.

(* destroying the configuration releases everything *)
Theorem C16_destroy_releases_all : forall ops c c' ev cd rd evd,
  run_ev c ops = (c', ev) -> c_dtor c = true ->
  forallb hook_neutral ops = true -> (forall o, In o ops -> o <> ODestroy) ->
  api_step c' ODestroy = (cd, rd, evd) ->
  Permutation (destroy_log (c_root c)) (dtors (ev ++ evd)) /\ destroy_log (c_root cd) = [].
Proof. exact run_then_destroy. Qed.
Print Assumptions C16_destroy_releases_all.

(* exactly once, never for a setting that is still alive: with pairwise distinct hooks, the calls are
   duplicate-free and disjoint from the hooks of the settings that remain *)
Theorem C16_exactly_once : forall (hooks live released : list Z),
  NoDup hooks -> Permutation hooks (live ++ released) ->
  NoDup released /\ forall h, In h released -> ~ In h live.
Proof. exact released_once. Qed.
Print Assumptions C16_exactly_once.

(* re-reads: a read first clears the configuration, handing every hook to the destructor, and opens /
   closes files; nothing else is ever passed to the destructor *)
Theorem C16_read_releases_old_tree : forall atof FS c top text,
  dtors (rd_events (config_read atof FS c top text))
  = if c_dtor c then destroy_log (c_root c) else [].
Proof.
  intros atof FS c top text.
  assert (Hno : forall l, dtors (flat_map levent_to_event l) = []).
  { induction l as [|e l IH]; [reflexivity|]. cbn [flat_map]. rewrite dtors_app, IH.
    destruct e; reflexivity. }
  unfold config_read. cbn [clear_cfg]. unfold clear_cfg.
  destruct (lex_top atof FS _ top text) as [toks stop].
  cbv zeta.
  destruct (NEST_LIMIT <? max_nest toks 0 0); [cbn [rd_events]; rewrite dtors_dlog; reflexivity|].
  destruct (p_config _ _) as [s|e s|s|s]; cbn [rd_events];
    rewrite ?dtors_app, ?Hno, ?app_nil_r; rewrite dtors_dlog; reflexivity.
Qed.
Print Assumptions C16_read_releases_old_tree.

(* strings passed in are stored by value: the stored string is what was passed, whatever happens to
   the caller's buffer afterwards, and handing it out does not change the configuration *)
Theorem C16_strings_are_values : forall s o s',
  n_set_string s o = SOk s' -> n_get_string s' = o.
Proof.
  intros s o s'. unfold n_set_string, n_get_string.
  destruct (s_pl s); try discriminate; intros H; inv H; rewrite s_pl_set_pl; reflexivity.
Qed.
Print Assumptions C16_strings_are_values.

(* ---- non-vacuity: a history with override, removal of a subtree, clear ---- *)
Definition ex16 : list aop :=
  [OSetDtor true; OSetOption 128 1;
   OAdd [] (Some [103]) 1; OHook [0%nat] (Some 1);
   OAdd [0%nat] (Some [97]) 7; OHook [0%nat; 0%nat] (Some 2);
   OSetElem KInt [0%nat; 0%nat] (-1) (AZ 5); OHook [0%nat; 0%nat; 0%nat] (Some 3);
   OAdd [] (Some [120]) 2; OHook [1%nat] (Some 4);
   OAdd [] (Some [120]) 5;                       (* override: releases 4 *)
   ORemove [] (Some [103])].                     (* releases 3, 2, 1 in this order *)
Example ex16_events : dtors (snd (run_ev cfg_init ex16)) = [4; 3; 2; 1].
Proof. reflexivity. Qed.

(* the setting that config_setting_add returns is a NEW setting - no hook, no children, no source position - also when it
   replaces a member of the same name under the override option: hook conservation alone (C16_step) would not exclude a
   replacement that recycles the old node together with its hook *)
Theorem C16_added_setting_has_no_hook : forall ov parent name tcode p2 idx victim,
  n_add ov parent name tcode = Some (p2, idx, victim) ->
  exists k, nth_error (s_kids p2) idx = Some k /\ s_hook k = None /\ s_kids k = [] /\ s_file k = None.
Proof. exact n_add_new_setting. Qed.
Print Assumptions C16_added_setting_has_no_hook.
