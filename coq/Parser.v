(* Parser.v — the parser of grammar.y as a recursive-descent function over the token stream,
   performing the semantic actions in bison's order (default reductions run before the next token is
   read; `simple_value: string` is reduced only after the look-ahead).  Definitions only. *)
From Coq Require Import List ZArith Bool.
Import ListNotations.
From LC Require Import Base Tree Fp Lookup Api ScanAction Tokens Lexer.
Local Open Scope Z_scope.

Inductive perr :=
| PErrSyntax            (* "syntax error" (or the text the scanner already set) *)
| PErrDup               (* "duplicate setting name" *)
| PErrMismatch          (* "mismatched element type in array" *)
| PErrMem.              (* "memory exhausted": parser stack limit *)

Record pst := mkP {
  p_root : setting;
  p_toks : list ltoken;       (* tokens not yet shifted *)
  p_la : bool;                (* head of p_toks has been read (it is the look-ahead) *)
  p_read : nat;               (* number of tokens read so far *)
  p_line : Z;                 (* yylineno after the last token read *)
  p_file : option bytes }.    (* current file name after the last token read *)

Inductive pres :=
| POk (s : pst)
| PErr (e : perr) (s : pst)
| PFatal (s : pst)            (* the token stream ended without EOF: the scanner exited *)
| PStuck (s : pst).           (* out of fuel / impossible state: excluded by the theorems *)

Definition set_proot (s : pst) (r : setting) : pst :=
  mkP r (p_toks s) (p_la s) (p_read s) (p_line s) (p_file s).

(* read the look-ahead (if not read yet) *)
Definition peek (s : pst) : option token * pst :=
  match p_toks s with
  | [] => (None, s)
  | t :: _ =>
      if p_la s then (Some (lt_tok t), s)
      else (Some (lt_tok t),
            mkP (p_root s) (p_toks s) true (S (p_read s)) (lt_line t) (lt_file t))
  end.

(* shift the look-ahead *)
Definition shift (s : pst) : pst :=
  mkP (p_root s) (tl (p_toks s)) false (p_read s) (p_line s) (p_file s).

(* what a scalar token stores: type, node-level setter, integer format to record *)
Definition scalar_of (t : token) : option (ty * (setting -> sres) * option Z) :=
  match t with
  | TkBool v => Some (TBool, fun s => n_set_bool s v, None)
  | TkInt v => Some (TInt, fun s => n_set_int false s v, Some 0)
  | TkInt64 v => Some (TInt64, fun s => n_set_int64 false s v, Some 0)
  | TkHex v => Some (TInt, fun s => n_set_int false s v, Some 1)
  | TkHex64 v => Some (TInt64, fun s => n_set_int64 false s v, Some 1)
  | TkFloat b => Some (TFloat, fun s => n_set_float false s b, None)
  | _ => None
  end.

Definition string_scalar (v : bytes) : ty * (setting -> sres) * option Z :=
  (TString, fun s => n_set_string s (Some v), None).

Definition apply_fmt (f : option Z) (s : setting) : setting :=
  match f with
  | Some x => match n_set_format s x with SOk s' => s' | _ => s end
  | None => s
  end.

Definition ty_at (r : setting) (p : ipath) : ty :=
  match get_at p r with Some s => s_ty s | None => TNone end.

Definition in_agg (r : setting) (parent : ipath) : bool :=
  match ty_at r parent with TArray | TList => true | _ => false end.

Inductive aggk := KArr | KLst | KGrp.
Definition aggk_pl (k : aggk) : payload := match k with KArr => PArray | KLst => PList | KGrp => PGroup end.
Definition aggk_code (k : aggk) : Z := match k with KArr => 7 | KLst => 8 | KGrp => 1 end.

Section Parse.
  Variable overrides : bool.

  (* setting: TOK_NAME { ctx->setting = config_setting_add(ctx->parent, $1, NONE); capture pos } *)
  Definition act_name (s : pst) (parent : ipath) (name : bytes) : option (pst * ipath) :=
    match get_at parent (p_root s) with
    | None => None
    | Some ps =>
        match n_add overrides ps (Some name) 0 with
        | None => None
        | Some (ps', i, _) =>
            let ps'' := set_kids ps' (list_upd i (fun k => set_pos k (p_line s) (p_file s)) (s_kids ps')) in
            Some (set_proot s (upd_at parent (fun _ => ps'') (p_root s)), parent ++ [i])
        end
    end.

  (* simple_value actions.  None = mismatched element type *)
  Definition act_scalar (s : pst) (parent : ipath) (cur : option ipath)
             (sc : ty * (setting -> sres) * option Z) : option pst :=
    let '(t, st, fmt) := sc in
    if in_agg (p_root s) parent then
      match get_at parent (p_root s) with
      | None => None
      | Some agg =>
          match n_set_elem t st agg (-1) with
          | EOk agg' i =>
              let agg'' := set_kids agg' (list_upd i (fun e => set_pos (apply_fmt fmt e) (p_line s) (p_file s))
                                                    (s_kids agg')) in
              Some (set_proot s (upd_at parent (fun _ => agg'') (p_root s)))
          | _ => None
          end
      end
    else
      match cur with
      | None => Some s
      | Some sp =>
          Some (set_proot s (upd_at sp (fun x => match st x with
                                                 | SOk x' => apply_fmt fmt x'
                                                 | _ => apply_fmt fmt x end) (p_root s)))
      end.

  (* '[' '(' '{' : returns the new ctx->parent *)
  Definition act_open (s : pst) (parent : ipath) (cur : option ipath) (k : aggk)
    : option (pst * ipath) :=
    match ty_at (p_root s) parent with
    | TList =>
        match get_at parent (p_root s) with
        | None => None
        | Some ps =>
            match n_add overrides ps None (aggk_code k) with
            | None => None
            | Some (ps', i, _) =>
                let ps'' := set_kids ps' (list_upd i (fun x => set_pos x (p_line s) (p_file s)) (s_kids ps')) in
                Some (set_proot s (upd_at parent (fun _ => ps'') (p_root s)), parent ++ [i])
            end
        end
    | _ =>
        match cur with
        | None => None
        | Some sp => Some (set_proot s (upd_at sp (fun x => set_pl x (aggk_pl k)) (p_root s)), sp)
        end
    end.

  Definition is_scalar_start (t : token) : bool :=
    match t with
    | TkBool _ | TkInt _ | TkInt64 _ | TkHex _ | TkHex64 _ | TkFloat _ | TkString _ => true
    | _ => false
    end.
  Definition is_value_start (simple : bool) (t : token) : bool :=
    is_scalar_start t ||
    (negb simple && match t with
                    | TkP TArrayStart | TkP TListStart | TkP TGroupStart => true
                    | _ => false end).

  Definition expect (s : pst) (p : ptok) : pres :=
    match peek s with
    | (None, s') => PFatal s'
    | (Some (TkP q), s') =>
        if match p, q with
           | TEquals, TEquals | TArrayEnd, TArrayEnd | TListEnd, TListEnd | TGroupEnd, TGroupEnd => true
           | _, _ => false end
        then POk (shift s') else PErr PErrSyntax s'
    | (Some _, s') => PErr PErrSyntax s'
    end.

  (* string: TOK_STRING+ ; the concatenation is taken when the look-ahead is not a string *)
  Fixpoint p_string (fuel : nat) (s : pst) (acc : bytes) : option bytes * pst :=
    match fuel with
    | O => (None, s)
    | S f =>
        match peek s with
        | (Some (TkString v), s') => p_string f (shift s') (acc ++ v)
        | (_, s') => (Some acc, s')
        end
    end.

  Fixpoint p_value (fuel : nat) (s : pst) (parent : ipath) (cur : option ipath) (simple : bool)
    : pres :=
    match fuel with
    | O => PStuck s
    | S f =>
        match peek s with
        | (None, s') => PFatal s'
        | (Some t, s') =>
            match t with
            | TkString _ =>
                match p_string f s' [] with
                | (None, s2) => PStuck s2
                | (Some v, s2) =>
                    match act_scalar s2 parent cur (string_scalar v) with
                    | Some s3 => POk s3
                    | None => PErr PErrMismatch s2
                    end
                end
            | TkP TArrayStart => if simple then PErr PErrSyntax s' else p_agg f (shift s') parent cur KArr
            | TkP TListStart => if simple then PErr PErrSyntax s' else p_agg f (shift s') parent cur KLst
            | TkP TGroupStart => if simple then PErr PErrSyntax s' else p_agg f (shift s') parent cur KGrp
            | _ =>
                match scalar_of t with
                | Some sc =>
                    let s2 := shift s' in
                    match act_scalar s2 parent cur sc with
                    | Some s3 => POk s3
                    | None => PErr PErrMismatch s2
                    end
                | None => PErr PErrSyntax s'
                end
            end
        end
    end

  (* after '[' '(' '{' has been shifted *)
  with p_agg (fuel : nat) (s : pst) (parent : ipath) (cur : option ipath) (k : aggk) : pres :=
    match fuel with
    | O => PStuck s
    | S f =>
        match act_open s parent cur k with
        | None => PStuck s
        | Some (s1, newparent) =>
            let body :=
              match k with
              | KGrp => p_settings f s1 newparent
              | KArr => p_elems f s1 newparent true true
              | KLst => p_elems f s1 newparent false true
              end in
            match body with
            | POk s2 =>
                expect s2 (match k with KArr => TArrayEnd | KLst => TListEnd | KGrp => TGroupEnd end)
            | r => r
            end
        end
    end

  (* value_list_optional / simple_value_list_optional.  [first]: no value has been parsed yet *)
  with p_elems (fuel : nat) (s : pst) (parent : ipath) (simple : bool) (first : bool) : pres :=
    match fuel with
    | O => PStuck s
    | S f =>
        match peek s with
        | (None, s') => PFatal s'
        | (Some t, s') =>
            if first then
              if is_value_start simple t then
                match p_value f s' parent None simple with
                | POk s2 => p_elems f s2 parent simple false
                | r => r
                end
              else POk s'
            else
              match t with
              | TkP TComma =>
                  let s2 := shift s' in
                  match peek s2 with
                  | (None, s3) => PFatal s3
                  | (Some t2, s3) =>
                      if is_value_start simple t2 then
                        match p_value f s3 parent None simple with
                        | POk s4 => p_elems f s4 parent simple false
                        | r => r
                        end
                      else p_elems f s3 parent simple false
                  end
              | _ => POk s'
              end
        end
    end

  (* setting_list_optional *)
  with p_settings (fuel : nat) (s : pst) (parent : ipath) : pres :=
    match fuel with
    | O => PStuck s
    | S f =>
        match peek s with
        | (None, s') => PFatal s'
        | (Some (TkName nm), s') =>
            let s1 := shift s' in
            match act_name s1 parent nm with
            | None => PErr PErrDup s1
            | Some (s2, sp) =>
                match expect s2 TEquals with
                | POk s3 =>
                    match p_value f s3 parent (Some sp) false with
                    | POk s4 =>
                        (* setting_terminator *)
                        let s6 := match peek s4 with
                                  | (Some (TkP TSemicolon), s5) => shift s5
                                  | (Some (TkP TComma), s5) => shift s5
                                  | (_, s5) => s5
                                  end in
                        p_settings f s6 parent
                    | r => r
                    end
                | r => r
                end
            end
        | (Some _, s') => POk s'
        end
    end.

  (* configuration: setting_list_optional followed by end of input *)
  Definition p_config (s : pst) : pres :=
    match p_settings (S (4 * length (p_toks s))) s [] with
    | POk s1 =>
        match peek s1 with
        | (None, s2) => PFatal s2
        | (Some TkEOF, s2) => POk s2
        | (Some _, s2) => PErr PErrSyntax s2
        end
    | r => r
    end.
End Parse.
