#!/bin/bash
# setup.sh — build the framework from files on disk only (offline): translators -> coq/gen, full Coq
# build (.vo, every coqc under timeout), extraction + OCaml driver, harness, patched locale.
set -e
cd "$(dirname "$0")"
mkdir -p build/run build/replay evidence
for t in $(cat tools/TRANSLATORS 2>/dev/null); do
  python3 "tools/$t"
done
cd coq
coq_makefile -f _CoqProject -o Makefile >/dev/null
COQC="timeout 1500 coqc" make -j16 > ../build/coq_build.log 2>&1 || { tail -50 ../build/coq_build.log; exit 1; }
cd ..
python3 - <<'PY'
import sys
sys.path.insert(0, "pygen")
import common
print("model:", common.build_model())
for v in ("asan",):
    exe, log = common.build_harness(v)
    print("harness:", exe)
    if exe is None:
        print(log); sys.exit(1)
PY
[ -x tools/mk_locale.sh ] && tools/mk_locale.sh || true
echo setup ok
